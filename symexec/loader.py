"""Load the *current* source of /repo/src/bob/learn/em as a private package whose
numpy/dask/scipy/h5py/dask_ml imports resolve to the symbolic shim.  No repository
file is edited; the source SHA-256 of every module is recorded for the evidence."""
import builtins
import hashlib
import os
import sys
import types

import numpy as _np
import z3

from . import daskmodel, h5model
from .core import SB, SInt, SV, Unsupported, fresh  # noqa: F401
from .daskmodel import DA, DASK, DArr
from .shim import NP, SCIPY, SArr, _obj

SRC = os.environ.get("BOB_LEARN_EM_SRC", "/repo/src/bob/learn/em")
PKG = "symbob"

HASHES = {}
KINIT_LOG = []


def _has_darr(a, k):
    for x in list(a) + list(k.values()):
        if isinstance(x, DArr):
            return True
        if isinstance(x, (list, tuple)) and any(isinstance(y, DArr) for y in x):
            return True
    return False


_CONCRETE_OK = {"maximum", "minimum", "abs", "absolute", "clip", "where", "mean", "var", "std", "min", "max", "amin", "amax", "argmin", "argmax", "any", "all", "sqrt", "square", "sign", "isfinite", "isnan", "logical_not", "logical_and", "logical_or", "invert"}


def _anysym(x):
    if isinstance(x, (SV, SB, SInt)):
        return True
    if isinstance(x, _np.ndarray):
        return x.dtype == object
    if isinstance(x, (list, tuple)):
        return any(_anysym(y) for y in x)
    return hasattr(x, "__sarr__")


class NPProxy:
    """numpy as the analysed code sees it: the symbolic shim, with Dask-model dispatch
    (what ``__array_function__`` does for real Dask arrays)."""

    def __getattr__(self, n):
        f = getattr(NP, n)
        if isinstance(f, (types.FunctionType, types.MethodType)):

            def g(*a, **k):
                if _has_darr(a, k):
                    return getattr(DA, n)(*a, **k)
                if n in _CONCRETE_OK and a and not any(_anysym(x) for x in a) and not any(_anysym(x) for x in k.values()):
                    return getattr(_np, n)(*a, **k)  # nothing symbolic involved: NumPy itself
                return f(*a, **k)

            g.__name__ = n
            return g
        return f


NPX = NPProxy()


def k_init(X, n_clusters, init="k-means||", random_state=None, max_iter=None, oversampling_factor=2, n_init="auto"):
    """Contract stub for dask_ml.cluster.k_means.k_init.
    array init: validated and returned *as is* (same object), like the real one;
    otherwise an uninterpreted function of (data, n_clusters, init, seed, max_iter, oversampling)."""
    KINIT_LOG.append(dict(n_clusters=n_clusters, init=init if isinstance(init, str) else "array", random_state=random_state, max_iter=max_iter, oversampling_factor=oversampling_factor))
    if isinstance(init, _np.ndarray):
        K, P = init.shape
        if K != n_clusters:
            raise ValueError("Number of centers in provided 'init' (%d) does not match 'n_clusters' (%d)" % (K, n_clusters))
        if P != X.shape[1]:
            raise ValueError("Number of features in the provided 'init' (%d) do not match the number of features in 'X'" % P)
        return init
    if not isinstance(init, str):
        raise TypeError("'init' must be an array or str, got %s" % type(init))
    if init not in ("k-means||", "k-means++", "random"):
        raise ValueError("'init' must be one of ...")
    if not isinstance(random_state, (int, _np.integer, type(None))):
        raise Unsupported("k_init random_state object")
    data = X.data if isinstance(X, DArr) else _obj(X)
    dig = hashlib.sha1(("|".join(str(getattr(v, "z", v)) for v in data.flat)).encode()).hexdigest()[:8]
    tag = "kinit[%s,%s,seed=%s,it=%s,os=%s,data=%s]" % (init, n_clusters, random_state, max_iter, oversampling_factor, dig)
    out = _np.empty((n_clusters, data.shape[1]), dtype=object)
    for idx in _np.ndindex(*out.shape):
        out[idx] = SV(z3.Real("%s_%d_%d" % ((tag,) + idx)))
    return out.view(SArr)


DASKML = types.SimpleNamespace(cluster=types.SimpleNamespace(k_means=types.SimpleNamespace(k_init=k_init)))

REPL = {"numpy": NPX, "dask": DASK, "scipy": SCIPY, "h5py": h5model.H5, "dask_ml": DASKML}


class _NumMeta(type):
    def __instancecheck__(cls, inst):
        return isinstance(inst, cls.__mro__[1])

    def __subclasscheck__(cls, sub):
        return issubclass(sub, cls.__mro__[1])


class _float(builtins.float, metaclass=_NumMeta):
    """`float` as seen by the analysed code: identity on symbolic scalars"""

    def __new__(cls, x=0.0):
        if isinstance(x, (SV, SInt)):
            return x
        if isinstance(x, _np.ndarray) and x.dtype == object:
            if x.size != 1:
                raise TypeError("only length-1 arrays can be converted to Python scalars")
            return x.flat[0]
        return builtins.float(x)


class _int(builtins.int, metaclass=_NumMeta):
    def __new__(cls, x=0, *a):
        if isinstance(x, (SV, SInt)) and not a:
            return x
        if isinstance(x, _np.ndarray) and x.dtype == object and x.size == 1 and not a:
            return x.flat[0]
        return builtins.int(x, *a)


def _make_builtins(importer):
    b = dict(builtins.__dict__)
    b["__import__"] = importer
    b["float"] = _float
    b["int"] = _int
    return b


def _ensure_loaded(full):
    if full in sys.modules:
        return sys.modules[full]
    rel = full[len(PKG) :].lstrip(".")
    if rel == "":
        path = os.path.join(SRC, "__init__.py")
    else:
        path = os.path.join(SRC, *rel.split(".")) + ".py"
        if not os.path.exists(path):
            path = os.path.join(SRC, *rel.split("."), "__init__.py")
    if not os.path.exists(path):
        raise ImportError("symbolic loader: no source for %s" % full)
    with open(path, "rb") as fh:
        src = fh.read()
    HASHES[os.path.relpath(path, os.path.dirname(SRC.rstrip("/")))] = hashlib.sha256(src).hexdigest()
    mod = types.ModuleType(full)
    mod.__file__ = path
    mod.__package__ = PKG if not path.endswith("__init__.py") or rel == "" else full
    if path.endswith("__init__.py"):
        mod.__path__ = []
        mod.__package__ = full
    mod.__dict__["__builtins__"] = _make_builtins(_importer)
    sys.modules[full] = mod
    try:
        exec(compile(src, path, "exec"), mod.__dict__)
    except BaseException:
        del sys.modules[full]
        raise
    if rel:
        parent = sys.modules.get(full.rsplit(".", 1)[0])
        if parent is not None:
            setattr(parent, full.rsplit(".", 1)[1], mod)
    return mod


_real_import = builtins.__import__


def _importer(name, globals=None, locals=None, fromlist=(), level=0):
    if level > 0:
        base = (globals or {}).get("__package__") or PKG
        parts = base.split(".")
        if level > 1:
            parts = parts[: -(level - 1)]
        base = ".".join(parts)
        full = base + ("." + name if name else "")
        m = _ensure_loaded(full)
        for fl in fromlist or ():
            if not hasattr(m, fl):
                try:
                    _ensure_loaded(full + "." + fl)
                except ImportError:
                    pass
        if fromlist:
            return m
        return sys.modules[base + "." + name.split(".")[0]] if name else m
    if name == "bob.learn.em" or name.startswith("bob.learn.em."):
        full = PKG + name[len("bob.learn.em") :]
        m = _ensure_loaded(full)
        if fromlist:
            return m
        return types.SimpleNamespace(learn=types.SimpleNamespace(em=sys.modules[PKG]))
    root = name.split(".")[0]
    if root in REPL:
        top = REPL[root]
        if not fromlist:
            return top
        obj = top
        for part in name.split(".")[1:]:
            obj = getattr(obj, part)
        return obj
    return _real_import(name, globals, locals, fromlist, level)


def load():
    """(re)load the package from the current working tree; returns the package module"""
    for k in [k for k in sys.modules if k == PKG or k.startswith(PKG + ".")]:
        del sys.modules[k]
    HASHES.clear()
    pkg = _ensure_loaded(PKG)
    # load every module present, so that all hashes are recorded
    for fn in sorted(os.listdir(SRC)):
        if fn.endswith(".py") and fn != "__init__.py":
            _ensure_loaded(PKG + "." + fn[:-3])
    return pkg


_PKG_CACHE = {}


def pkg():
    if "p" not in _PKG_CACHE:
        _PKG_CACHE["p"] = load()
    return _PKG_CACHE["p"]


def mod(name):
    pkg()
    return sys.modules[PKG + "." + name]


def reset_env(range_mode=False, linalg="closed"):
    """reset all environment models before a harness run"""
    from . import shim

    shim.MODE["range"] = range_mode
    NP.random.reset()
    NP.LA.reset(linalg)
    h5model.reset()
    daskmodel.set_executor()
    KINIT_LOG.clear()


def int_constants(min_value=8, max_value=100000):
    """integer literals >= min_value found in the analysed sources (module constants, defaults,
    comparisons): sizes at which size-dependent code paths may switch"""
    import ast

    out = set()
    for fn in sorted(os.listdir(SRC)):
        if not fn.endswith(".py"):
            continue
        try:
            tree = ast.parse(open(os.path.join(SRC, fn)).read())
        except SyntaxError:
            continue
        for node in ast.walk(tree):
            if isinstance(node, ast.Constant) and isinstance(node.value, int) and not isinstance(node.value, bool) and min_value <= node.value <= max_value:
                out.add(node.value)
    return sorted(out)
