"""Symbolic replacement for numpy / scipy as seen by the code under analysis.

Arrays are real NumPy ``object`` arrays (class ``SArr``) holding ``SV`` scalars or
plain Python numbers, so broadcasting, indexing, reshaping, ``@``, in-place ops and
aliasing are NumPy's own.  Only element-level arithmetic is symbolic.
"""
import builtins
import itertools
import math
import operator as _op
import types

import numpy as _np
import z3

from .core import (
    EX,
    LN,
    SQ,
    SB,
    SInt,
    SV,
    Unsupported,
    _bad,
    _z,
    badz,
    bor,
    ctx,
    fresh,
    is_num,
    rat,
)

# --------------------------------------------------------------------------------------
# scalar kernels

MODE = {"range": False}  # range mode: exp under/overflows by magnitude (C01/C13 finiteness)


def _sym(v):
    return isinstance(v, (SV, SInt))


def s_log(a):
    if isinstance(a, SV):
        return a.log()
    if isinstance(a, SInt):
        return SV(_z(a)).log()
    if float(a) <= 0:
        return SV(LN(rat(a)), z3.BoolVal(True))
    return SV(LN(rat(a)))  # ln of a constant stays an (axiomatised) symbolic term


def s_exp(a):
    if not isinstance(a, SV):
        a = SV(_z(a))
    if MODE["range"]:
        t = a.z
        return SV(
            z3.If(t < -745, z3.RealVal(0), EX(t)),
            bor(a.bad, t > 709),
        )
    return a.exp()


def s_sqrt(a):
    if isinstance(a, SV):
        return a.sqrt()
    if isinstance(a, SInt):
        return SV(_z(a)).sqrt()
    if float(a) < 0:
        return SV(SQ(rat(a)), z3.BoolVal(True))
    r = math.isqrt(int(a)) if float(a).is_integer() else None
    if r is not None and r * r == int(a):
        return r
    return SV(SQ(rat(a)))


def s_abs(v):
    return builtins.abs(v)


def s_ite(c, x, y):
    if isinstance(c, SB):
        cz = z3.simplify(c.z)
        if z3.is_true(cz):
            return x
        if z3.is_false(cz):
            return y
        bx, by = _bad(x), _bad(y)
        b = None if (bx is None and by is None) else z3.If(cz, badz(x), badz(y))
        return SV(z3.If(cz, _z(x), _z(y)), b)
    if _sym(c):
        return s_ite(c != 0, x, y)
    return x if c else y


def s_max2(a, b):
    # numpy.maximum propagates NaN
    if not _sym(a) and not _sym(b):
        return a if a >= b else b
    return SV(z3.If(_z(a) >= _z(b), _z(a), _z(b)), bor(_bad(a), _bad(b)))


def s_min2(a, b):
    if not _sym(a) and not _sym(b):
        return a if a <= b else b
    return SV(z3.If(_z(a) <= _z(b), _z(a), _z(b)), bor(_bad(a), _bad(b)))


def s_div(a, b):
    """division with IEEE semantics for concrete zero divisors (NaN/inf -> bad)"""
    if not _sym(a) and not _sym(b):
        if b == 0:
            return SV(z3.RealVal(0), z3.BoolVal(True))
        return a / b
    return a / b


def s_isfinite(v):
    if isinstance(v, SV):
        return SB(z3.Not(badz(v)))
    if isinstance(v, SInt):
        return True
    return bool(_np.isfinite(v))


def s_isnan(v):
    if isinstance(v, SV):
        return SB(badz(v))
    if isinstance(v, SInt):
        return False
    return bool(_np.isnan(v))


def lse(terms):
    """log-sum-exp contract: ln(sum_k ex(t_k)); numerically stable (no range cut-offs)."""
    terms = list(terms)
    if len(terms) == 1:
        t = terms[0]
        return t if isinstance(t, SV) else SV(_z(t))
    s = None
    bad = None
    for t in terms:
        if not isinstance(t, SV):
            t = SV(_z(t))
        e = EX(t.z)
        s = e if s is None else s + e
        bad = bor(bad, t.bad)
    return SV(LN(s), bad)


# --------------------------------------------------------------------------------------
# arrays


def _plain(a):
    return a.view(_np.ndarray) if isinstance(a, _np.ndarray) else a


def _hassym(a):
    if isinstance(a, (SV, SB, SInt)):
        return True
    if isinstance(a, _np.ndarray):
        return a.dtype == object
    if isinstance(a, (list, tuple)):
        return any(_hassym(x) for x in a)
    return False


def _obj(a):
    """object-dtype SArr view/copy of anything array-like"""
    if isinstance(a, SArr):
        return a
    if isinstance(a, _np.ndarray):
        if a.dtype != object:
            a = a.astype(object)
        return a.view(SArr)
    if isinstance(a, (SV, SB, SInt)):
        r = _np.empty((), dtype=object)
        r[()] = a
        return r.view(SArr)
    if hasattr(a, "__sarr__"):
        return a.__sarr__()
    r = _np.array(a, dtype=object)
    return r.view(SArr)


def _unbox(r):
    """0-d object array -> scalar"""
    if isinstance(r, _np.ndarray) and r.ndim == 0 and r.dtype == object:
        return r[()]
    if isinstance(r, _np.ndarray) and r.dtype == object and not isinstance(r, SArr):
        return r.view(SArr)
    return r


def _vec(f, nin=1):
    uf = _np.frompyfunc(f, nin, 1)

    def g(*args):
        args = [_plain(_obj(a)) for a in args]
        r = uf(*args)
        if isinstance(r, _np.ndarray) and r.ndim > 1:
            # NumPy's element-wise functions keep the memory layout of their inputs (order 'K')
            same = [a for a in args if isinstance(a, _np.ndarray) and a.shape == r.shape]
            if same and all(a.flags.f_contiguous and not a.flags.c_contiguous for a in same):
                r = _np.asfortranarray(r)
        return _unbox(r)

    return g


v_log = _vec(s_log)
v_exp = _vec(s_exp)
v_sqrt = _vec(s_sqrt)
v_abs = _vec(s_abs)
v_max = _vec(s_max2, 2)
v_min = _vec(s_min2, 2)
v_ite = _vec(s_ite, 3)
v_div = _vec(s_div, 2)
v_isfinite = _vec(s_isfinite)
v_isnan = _vec(s_isnan)


def _is_symbolic_mask(k):
    if isinstance(k, _np.ndarray) and k.dtype == object and k.size:
        return any(isinstance(x, SB) for x in k.flat)
    return False


def _booleanize(a):
    """object array of SB/bools -> concrete bool array if all concrete, else None"""
    out = _np.empty(a.shape, dtype=bool)
    for idx in _np.ndindex(*a.shape):
        v = a[idx]
        if isinstance(v, SB):
            z = z3.simplify(v.z)
            if z3.is_true(z):
                out[idx] = True
            elif z3.is_false(z):
                out[idx] = False
            else:
                return None
        else:
            out[idx] = bool(v)
    return out


def _fork_mask(a):
    """concrete boolean array for a symbolic mask: one execution path per truth assignment"""
    out = _np.empty(a.shape, dtype=bool)
    for idx in _np.ndindex(*a.shape):
        out[idx] = bool(a[idx])
    return out


def _reduce_axis(a, axis, f):
    """apply f(list_of_elements)->scalar along axis/axes of object array a"""
    a = _plain(_obj(a))
    if axis is None:
        return f(list(a.flat))
    if isinstance(axis, int):
        axis = (axis,)
    axis = tuple(ax % a.ndim for ax in axis)
    keep = [i for i in range(a.ndim) if i not in axis]
    b = _np.transpose(a, keep + list(axis))
    kshape = tuple(a.shape[i] for i in keep)
    out = _np.empty(kshape, dtype=object)
    for idx in _np.ndindex(*kshape):
        out[idx] = f(list(b[idx].flat))
    return out


def _keepdims(out, a, axis, keepdims):
    if not keepdims:
        return out
    a = _np.asarray(a, dtype=object)
    if axis is None:
        return _np.reshape(_obj(out), (1,) * a.ndim)
    if isinstance(axis, int):
        axis = (axis,)
    o = _obj(out)
    for ax in sorted(ax % a.ndim for ax in axis):
        o = _np.expand_dims(o, ax)
    return o


def r_min(a, axis=None, keepdims=False, **kw):
    def f(xs):
        r = xs[0]
        for x in xs[1:]:
            r = s_min2(r, x)
        return r

    return _unbox(_keepdims(_reduce_axis(a, axis, f), a, axis, keepdims))


def r_max(a, axis=None, keepdims=False, **kw):
    def f(xs):
        r = xs[0]
        for x in xs[1:]:
            r = s_max2(r, x)
        return r

    return _unbox(_keepdims(_reduce_axis(a, axis, f), a, axis, keepdims))


def r_argmin(a, axis=None, **kw):
    """forks; numpy's tie rule (first minimal index).  NaN: numpy returns the first NaN index."""

    def f(xs):
        for i, x in enumerate(xs):
            if isinstance(x, SV) and x.bad is not None:
                if bool(SB(x.bad)):
                    return i
        best = 0
        for k in range(1, len(xs)):
            if xs[k] < xs[best]:
                best = k
        return best

    r = _reduce_axis(a, axis, f)
    return r.astype(int) if isinstance(r, _np.ndarray) else int(r)


def r_argmax(a, axis=None, **kw):
    def f(xs):
        for i, x in enumerate(xs):
            if isinstance(x, SV) and x.bad is not None:
                if bool(SB(x.bad)):
                    return i
        best = 0
        for k in range(1, len(xs)):
            if xs[k] > xs[best]:
                best = k
        return best

    r = _reduce_axis(a, axis, f)
    return r.astype(int) if isinstance(r, _np.ndarray) else int(r)


def r_any(a, axis=None, keepdims=False, **kw):
    def f(xs):
        for x in xs:
            if bool(x):
                return True
        return False

    r = _reduce_axis(a, axis, f)
    r = r.astype(bool) if isinstance(r, _np.ndarray) else bool(r)
    return r


def r_all(a, axis=None, keepdims=False, **kw):
    def f(xs):
        for x in xs:
            if not bool(x):
                return False
        return True

    r = _reduce_axis(a, axis, f)
    r = r.astype(bool) if isinstance(r, _np.ndarray) else bool(r)
    return r


def r_lse(a, axis=0, keepdims=False, initial=None, **kw):
    if initial is not None and not (isinstance(initial, float) and initial == -_np.inf):
        raise Unsupported("logaddexp.reduce initial=%r" % (initial,))
    a = _obj(a)
    out = _reduce_axis(a, axis, lse)
    return _unbox(_keepdims(out, a, axis, keepdims))


_CMP = {
    _np.less: _op.lt,
    _np.less_equal: _op.le,
    _np.greater: _op.gt,
    _np.greater_equal: _op.ge,
    _np.equal: _op.eq,
    _np.not_equal: _op.ne,
}


class SArr(_np.ndarray):
    """object ndarray whose comparisons/min/max/clip/any are symbolic"""

    def _c(self, o, f):
        if hasattr(o, "__sarr_priority__"):
            return NotImplemented
        r = _np.frompyfunc(f, 2, 1)(_plain(self), _plain(_obj(o)))
        return r.view(SArr) if isinstance(r, _np.ndarray) else r

    def __lt__(s, o):
        return s._c(o, _op.lt)

    def __le__(s, o):
        return s._c(o, _op.le)

    def __gt__(s, o):
        return s._c(o, _op.gt)

    def __ge__(s, o):
        return s._c(o, _op.ge)

    def __eq__(s, o):
        return s._c(o, _op.eq)

    def __ne__(s, o):
        return s._c(o, _op.ne)

    __hash__ = None

    def __invert__(s):
        return v_not(s)

    def __and__(s, o):
        return v_and(s, o)

    __rand__ = __and__

    def __or__(s, o):
        return v_or(s, o)

    __ror__ = __or__

    def __array_ufunc__(self, ufunc, method, *inputs, out=None, **kwargs):
        if any(hasattr(i, "__sarr_priority__") for i in inputs):
            return NotImplemented
        if method == "__call__" and out is None:
            if ufunc in _CMP:
                return SArr._c(_obj(inputs[0]), inputs[1], _CMP[ufunc])
            f = _UFUNC_TABLE.get(ufunc)
            if f is not None:
                return f(*inputs, **kwargs)
        if method == "reduce":
            if ufunc is _np.minimum:
                return r_min(inputs[0], **{k: v for k, v in kwargs.items() if k in ("axis", "keepdims")})
            if ufunc is _np.maximum:
                return r_max(inputs[0], **{k: v for k, v in kwargs.items() if k in ("axis", "keepdims")})
            if ufunc is _np.logaddexp:
                return r_lse(inputs[0], **kwargs)
            if ufunc in (_np.logical_or, _np.logical_and):
                g = r_any if ufunc is _np.logical_or else r_all
                return g(inputs[0], axis=kwargs.get("axis", 0))
        if ufunc is _np.true_divide and method == "__call__":
            r = v_div(inputs[0], inputs[1])
            if out is not None:
                _np.ndarray.__setitem__(out[0], Ellipsis, _plain(_obj(r)))
                return out[0]
            return r
        if ufunc not in _PASS_UFUNCS:
            raise Unsupported("numpy ufunc %s.%s on a symbolic array" % (ufunc.__name__, method))
        ins = tuple(_plain(i) for i in inputs)
        if out is not None:
            kwargs["out"] = tuple(_plain(o) for o in out)
        r = getattr(ufunc, method)(*ins, **kwargs)
        if out is not None:
            return out[0] if len(out) == 1 else out
        if isinstance(r, _np.ndarray):
            if r.dtype == object:
                return r.view(SArr) if r.ndim else r[()]
            return r
        return r

    # reductions / methods that numpy would implement with bool() on comparisons
    def min(self, axis=None, out=None, keepdims=False, **kw):
        return r_min(self, axis, keepdims)

    def max(self, axis=None, out=None, keepdims=False, **kw):
        return r_max(self, axis, keepdims)

    def argmin(self, axis=None, out=None, **kw):
        return r_argmin(self, axis)

    def argmax(self, axis=None, out=None, **kw):
        return r_argmax(self, axis)

    def any(self, axis=None, out=None, keepdims=False, **kw):
        return r_any(self, axis, keepdims)

    def all(self, axis=None, out=None, keepdims=False, **kw):
        return r_all(self, axis, keepdims)

    def clip(self, min=None, max=None, out=None, **kw):
        return NP.clip(self, min, max)

    def var(self, axis=None, dtype=None, out=None, ddof=0, keepdims=False, **kw):
        return NP.var(self, axis=axis, ddof=ddof, keepdims=keepdims)

    def std(self, axis=None, dtype=None, out=None, ddof=0, keepdims=False, **kw):
        return NP.sqrt(NP.var(self, axis=axis, ddof=ddof, keepdims=keepdims))

    def astype(self, dtype, *a, **k):
        if isinstance(dtype, type) and issubclass(dtype, float):
            dtype = float
        elif isinstance(dtype, type) and issubclass(dtype, int) and dtype is not bool:
            dtype = int
        if dtype in (float, _np.float64, object, "float64", "float", _np.float32, int, _np.int64, "int"):
            r = self.copy()
            if any(isinstance(x, SB) for x in r.flat):
                for idx in _np.ndindex(*r.shape):
                    x = _np.ndarray.__getitem__(r, idx)
                    if isinstance(x, SB):
                        _np.ndarray.__setitem__(r, idx, s_ite(x, 1, 0))
                return r
            if dtype in (int, _np.int64, "int"):
                return _np.ndarray.astype(self, dtype, *a, **k)
            return r
        return _np.ndarray.astype(self, dtype, *a, **k)

    def __getitem__(self, key):
        if isinstance(key, tuple) and any(_is_symbolic_mask(k) for k in key):
            key = tuple((_booleanize(_plain(k)) if _booleanize(_plain(k)) is not None else _fork_mask(_plain(k))) if _is_symbolic_mask(k) else k for k in key)
        if _is_symbolic_mask(key):
            b = _booleanize(_plain(key))
            if b is None:
                b = _fork_mask(_plain(key))  # the selection's shape depends on the mask: fork on it
            key = b
        r = _np.ndarray.__getitem__(self, key)
        return r

    def __setitem__(self, key, value):
        if isinstance(key, tuple) and any(_is_symbolic_mask(k) for k in key):
            key = tuple((_booleanize(_plain(k)) if _booleanize(_plain(k)) is not None else _fork_mask(_plain(k))) if _is_symbolic_mask(k) else k for k in key)
        if _is_symbolic_mask(key):
            b = _booleanize(_plain(key))
            if b is None:
                # a[mask] = v  ==>  a = where(mask, v, a)   (v scalar or same shape as a)
                mask = _plain(key)
                val = _plain(_obj(value))
                if mask.shape != self.shape or (val.ndim != 0 and val.shape != self.shape):
                    # packed values / partial mask: the layout depends on the mask's values: fork on it
                    _np.ndarray.__setitem__(self, _fork_mask(mask), value)
                    return
                for idx in _np.ndindex(*self.shape):
                    v = val[()] if val.ndim == 0 else val[idx]
                    _np.ndarray.__setitem__(self, idx, s_ite(mask[idx], v, _np.ndarray.__getitem__(self, idx)))
                return
            key = b
        if hasattr(value, "__sarr__"):
            value = value.__sarr__()
        _np.ndarray.__setitem__(self, key, value)

    def __bool__(self):
        if self.size != 1:
            raise ValueError("The truth value of an array with more than one element is ambiguous.")
        return bool(self.flat[0])

    def __float__(self):
        if self.size != 1:
            raise TypeError("only length-1 arrays can be converted")
        return self.flat[0]


_PASS_UFUNCS = {
    _np.add,
    _np.subtract,
    _np.multiply,
    _np.true_divide,
    _np.negative,
    _np.positive,
    _np.matmul,
    _np.power,
    _np.square,
    _np.reciprocal,
    _np.vecdot if hasattr(_np, "vecdot") else _np.add,
}


# --------------------------------------------------------------------------------------
# the numpy replacement


def _wrap(f):
    def g(*a, **k):
        k.pop("like", None)
        a = tuple(x.__sarr__() if hasattr(x, "__sarr__") else x for x in a)
        r = f(*a, **k)
        if isinstance(r, _np.ndarray) and r.dtype == object:
            return r.view(SArr) if r.ndim else r[()]
        return r

    g.__name__ = getattr(f, "__name__", "wrapped")
    return g


class _LogAddExp:
    def __call__(self, a, b):
        return r_lse(_np.stack([_plain(_obj(a)), _plain(_obj(b))]), axis=0)

    def reduce(self, array, axis=0, keepdims=False, initial=None, **kw):
        return r_lse(array, axis=axis, keepdims=keepdims, initial=initial)


_entropy = itertools.count()


class RNGModel:
    """explicit model of numpy's global generator: the state is a term"""

    def __init__(self):
        self.reset()

    def reset(self, state="G0"):
        self.state = state  # hashable description of the state
        self.draws = 0
        self.log = []

    def seed(self, s=None):
        if isinstance(s, (SV, SInt)):
            raise Unsupported("symbolic seed")
        self.state = ("seed", s)
        self.draws = 0
        self.log.append(("seed", s))

    def _name(self):
        return "rng[%s]#%d" % (self.state, self.draws)

    def normal(self, loc=0.0, scale=1.0, size=None):
        nm = self._name()
        self.draws += 1
        self.log.append(("normal", nm, size))
        if size is None:
            return loc + scale * SV(z3.Real(nm))
        if isinstance(size, int):
            size = (size,)
        a = _np.empty(size, dtype=object)
        for idx in _np.ndindex(*size):
            a[idx] = loc + scale * SV(z3.Real(nm + "".join("_%d" % i for i in idx)))
        return a.view(SArr)

    def rand(self, *size):
        return self.normal(size=size or None)

    def random(self, size=None):
        return self.normal(size=size)

    def RandomState(self, seed=None):
        """a private generator: its own state term, deterministic in the seed"""
        if isinstance(seed, (SV, SInt)):
            raise Unsupported("symbolic seed")
        r = RNGModel()
        if seed is None:
            # seeded from OS entropy: an arbitrary state, different for every call
            r.state = ("entropy", next(_entropy))
        else:
            r.state = ("rs", seed)
        return r

    def default_rng(self, seed=None):
        raise Unsupported("np.random.default_rng")


class LinalgModel:
    """inverse / solve / cholesky: closed forms for n<=2 (mode 'closed'), or contract stubs"""

    def __init__(self):
        self.mode = "closed"
        self.axioms = []  # contract facts for stub results
        self.calls = []  # (kind, argument, result)
        self.sym_if = None

    def reset(self, mode="closed"):
        self.mode = mode
        self.axioms = []
        self.calls = []

    def _fresh_mat(self, tag, shape):
        a = _np.empty(shape, dtype=object)
        for idx in _np.ndindex(*shape):
            a[idx] = fresh(tag)
        return a.view(SArr)

    def det(self, A):
        A = _obj(A)
        n = A.shape[-1]
        if A.ndim > 2:
            return _obj([self.det(A[i]) for i in range(A.shape[0])])
        if n == 1:
            return A[0, 0]
        if n == 2:
            return A[0, 0] * A[1, 1] - A[0, 1] * A[1, 0]
        if n == 3:
            return (
                A[0, 0] * (A[1, 1] * A[2, 2] - A[1, 2] * A[2, 1])
                - A[0, 1] * (A[1, 0] * A[2, 2] - A[1, 2] * A[2, 0])
                + A[0, 2] * (A[1, 0] * A[2, 1] - A[1, 1] * A[2, 0])
            )
        raise Unsupported("det n=%d" % n)

    _uf_cache = {}

    def _uf(self, name, nargs):
        k = (name, nargs)
        if k not in self._uf_cache:
            self._uf_cache[k] = z3.Function(name, *([z3.RealSort()] * (nargs + 1)))
        return self._uf_cache[k]

    def _inv_uf(self, A):
        """inverse as uninterpreted functions of the entries (congruence: equal arguments ->
        equal results) + the contract A M = M A = I as axiom instances"""
        n = A.shape[0]
        args = [_z(v) for v in A.flat]
        M = _np.empty((n, n), dtype=object)
        inbad = bor(*[_bad(v) for v in A.flat])
        # the inverse of a symmetric matrix is symmetric: if A is symmetric as a polynomial
        # identity, M[j][i] is *the same term* as M[i][j]
        symm = False
        try:
            from .normal import Normaliser

            Nn = Normaliser()
            symm = all(Nn.pkey(Nn.poly(_z(A[i, j]))) == Nn.pkey(Nn.poly(_z(A[j, i]))) for i in range(n) for j in range(i))
        except Exception:
            symm = False
        if symm:
            args = [_z(A[min(i, j), max(i, j)]) for i in range(n) for j in range(n)]
        for i in range(n):
            for j in range(n):
                ii, jj = (min(i, j), max(i, j)) if symm else (i, j)
                M[i, j] = SV(self._uf("inv%d_%d%d" % (n, ii, jj), n * n)(*args), inbad)
        P = _plain(A) @ M
        Q = M @ _plain(A)
        for i in range(n):
            for j in range(n):
                self.axioms.append(_z(P[i, j]) == (1 if i == j else 0))
                self.axioms.append(_z(Q[i, j]) == (1 if i == j else 0))
        # the inverse of a symmetric matrix is symmetric
        sym = [_z(A[i, j]) == _z(A[j, i]) for i in range(n) for j in range(i)]
        if sym:
            self.axioms.append(z3.Implies(z3.And(*sym), z3.And(*[M[i, j].z == M[j, i].z for i in range(n) for j in range(i)])))
        return M.view(SArr)

    def _chol_uf(self, A, lower):
        n = A.shape[0]
        tri = [(i, j) for i in range(n) for j in range(i + 1)]
        args = [_z(A[i, j] if lower else A[j, i]) for (i, j) in tri]
        inbad = bor(*[_bad(v) for v in A.flat])
        L = _np.empty((n, n), dtype=object)
        L[...] = 0
        for (i, j) in tri:
            L[i, j] = SV(self._uf("chol%d_%d%d" % (n, i, j), len(args))(*args), inbad)
        Pm = L @ L.T
        for (i, j) in tri:
            self.axioms.append(_z(Pm[i, j]) == _z(A[i, j] if lower else A[j, i]))
        for i in range(n):
            self.axioms.append(_z(L[i, i]) > 0)
        return L.view(SArr)

    def inv(self, A, **kw):
        A = _obj(A)
        if self.mode == "uf" and A.ndim == 2 and A.shape[0] == A.shape[1]:
            r = self._inv_uf(A)
            self.calls.append(("inv", A.copy(), r))
            return r
        if A.ndim == 3:
            return _np.stack([_plain(self.inv(A[i])) for i in range(A.shape[0])]).view(SArr)
        if A.ndim != 2 or A.shape[0] != A.shape[1]:
            raise _np.linalg.LinAlgError("Last 2 dimensions of the array must be square")
        n = A.shape[0]
        if self.mode == "closed" and n <= 2:
            if n == 1:
                r = _np.empty((1, 1), dtype=object)
                r[0, 0] = 1 / A[0, 0]
            else:
                det = A[0, 0] * A[1, 1] - A[0, 1] * A[1, 0]
                r = _np.empty((2, 2), dtype=object)
                r[0, 0] = A[1, 1] / det
                r[0, 1] = -A[0, 1] / det
                r[1, 0] = -A[1, 0] / det
                r[1, 1] = A[0, 0] / det
            r = r.view(SArr)
        else:
            # contract: M with A M = M A = I ; non-finite iff singular (n<=3) else assumed regular
            M = self._fresh_mat("inv", (n, n))
            P = _plain(A) @ _plain(M)
            Q = _plain(M) @ _plain(A)
            for i in range(n):
                for j in range(n):
                    self.axioms.append(_z(P[i, j]) == (1 if i == j else 0))
                    self.axioms.append(_z(Q[i, j]) == (1 if i == j else 0))
            inbad = bor(*[_bad(v) for v in A.flat])
            if n <= 3:
                d = self.det(A)
                inbad = bor(inbad, _z(d) == 0)
            if inbad is not None:
                for idx in _np.ndindex(n, n):
                    M[idx] = SV(M[idx].z, inbad)
            r = M
        self.calls.append(("inv", A.copy(), r))
        return r

    def pinv(self, A, **kw):
        r = self.inv(A)
        self.calls[-1] = ("pinv",) + self.calls[-1][1:]
        return r

    def solve(self, A, b, **kw):
        b = _obj(b)
        r = _obj(_plain(self.inv(A)) @ _plain(b))
        self.calls.append(("solve", _obj(A).copy(), b.copy(), r))
        return r

    def cholesky(self, A, lower=False, **kw):
        A = _obj(A)
        if A.ndim != 2 or A.shape[0] != A.shape[1]:
            raise ValueError("expected square matrix")
        n = A.shape[0]
        if self.mode == "uf":
            L = self._chol_uf(A, lower)
            r = L if lower else L.T.copy().view(SArr)
            self.calls.append(("cholesky", A.copy(), r, lower))
            return r
        L = _np.empty((n, n), dtype=object)
        L[...] = 0
        if self.mode == "closed" and n <= 2:
            # Cholesky-Banachiewicz on the lower triangle (scipy reads only the requested triangle)
            for i in range(n):
                for j in range(i + 1):
                    s = A[i, j] if lower else A[j, i]
                    for k in range(j):
                        s = s - L[i, k] * L[j, k]
                    if i == j:
                        L[i, j] = s_sqrt(s)
                        # scipy raises LinAlgError for non-PD; we mark bad instead
                        if isinstance(L[i, j], SV):
                            L[i, j] = SV(L[i, j].z, bor(L[i, j].bad, _z(s) <= 0))
                    else:
                        L[i, j] = s / L[j, j]
        else:
            tri = [(i, j) for i in range(n) for j in range(i + 1)]
            for (i, j) in tri:
                L[i, j] = fresh("chol")
            P = L @ L.T
            for i in range(n):
                for j in range(i + 1):
                    self.axioms.append(_z(P[i, j]) == _z(A[i, j] if lower else A[j, i]))
                self.axioms.append(_z(L[i, i]) > 0)
            inbad = bor(*[_bad(v) for v in A.flat])
            if inbad is not None:
                for (i, j) in tri:
                    L[i, j] = SV(L[i, j].z, inbad)
        L = L.view(SArr)
        r = L if lower else L.T.copy().view(SArr)
        self.calls.append(("cholesky", A.copy(), r, lower))
        return r


class NPShim:
    """stands in for the ``numpy`` module"""

    _pass = (
        "sum vstack hstack stack concatenate reshape transpose swapaxes repeat broadcast_to "
        "atleast_2d atleast_1d squeeze outer dot matmul diagonal multiply add subtract divide "
        "true_divide negative expand_dims moveaxis tensordot cumsum prod tile ravel trace diag "
        "flip roll take inner kron split array_split column_stack row_stack dstack triu tril "
        "append delete insert broadcast_arrays meshgrid nansum"
    ).split()
    _const = (
        "newaxis ndarray pi inf nan e ndindex integer floating int32 int64 float64 float32 int_ "
        "bool_ intp uint8 errstate seterr ndim shape size arange unique bincount isscalar "
        "number generic dtype iinfo array_equiv index_exp s_ ix_ nonzero flatnonzero argsort sort "
        "count_nonzero searchsorted linspace issubdtype result_type can_cast iterable broadcast broadcast_shapes lexsort"
    ).split()

    def __init__(self):
        self.logaddexp = _LogAddExp()
        self.random = RNGModel()
        self.LA = LinalgModel()
        self.linalg = types.SimpleNamespace(
            inv=self.LA.inv,
            solve=self.LA.solve,
            det=self.LA.det,
            pinv=self.LA.pinv,
            cholesky=lambda A: self.LA.cholesky(A, lower=True),
            LinAlgError=_np.linalg.LinAlgError,
            norm=self._norm,
        )
        try:
            self.AxisError = _np.exceptions.AxisError
        except AttributeError:  # pragma: no cover
            self.AxisError = _np.AxisError
        self.exceptions = _np.exceptions

    def __getattr__(self, n):
        if n in NPShim._pass:
            f = getattr(_np, n)
            if isinstance(f, _np.ufunc):
                return _UfuncWrap(f)
            return _wrap(f)
        if n in NPShim._const:
            return getattr(_np, n)
        raise Unsupported("numpy.%s is not modelled by the symbolic shim" % n)

    # construction ------------------------------------------------------------------
    @staticmethod
    def _shape(shape):
        if isinstance(shape, (int, _np.integer, SInt)):
            shape = (shape,)
        return tuple(int(s) for s in shape)

    def finfo(self, t=float):
        return _np.finfo(float)

    def empty(self, shape, dtype=None, like=None, **kw):
        return self.zeros(shape)

    @staticmethod
    def _intlike(dtype):
        try:
            return dtype is not None and _np.dtype(dtype).kind in "iub"
        except TypeError:
            return False

    def zeros(self, shape, dtype=None, like=None, **kw):
        if self._intlike(dtype):
            return _np.zeros(self._shape(shape), dtype=dtype)
        a = _np.empty(self._shape(shape), dtype=object)
        a[...] = 0
        return a.view(SArr)

    def ones(self, shape, dtype=None, like=None, **kw):
        if self._intlike(dtype):
            return _np.ones(self._shape(shape), dtype=dtype)
        a = _np.empty(self._shape(shape), dtype=object)
        a[...] = 1
        return a.view(SArr)

    def full(self, shape, fill_value, dtype=None, like=None, **kw):
        if self._intlike(dtype) and not _sym(fill_value):
            return _np.full(self._shape(shape), fill_value, dtype=dtype)
        a = _np.empty(self._shape(shape), dtype=object)
        a[...] = fill_value
        return a.view(SArr)

    def ones_like(self, a, **kw):
        return self.ones(_np.shape(_obj(a)))

    def zeros_like(self, a, **kw):
        return self.zeros(_np.shape(_obj(a)))

    def empty_like(self, a, **kw):
        return self.zeros(_np.shape(_obj(a)))

    def full_like(self, a, fill_value, **kw):
        return self.full(_np.shape(_obj(a)), fill_value)

    def eye(self, n, m=None, dtype=None, **kw):
        n = int(n)
        m = n if m is None else int(m)
        a = self.zeros((n, m))
        for i in range(builtins.min(n, m)):
            a[i, i] = 1
        return a

    def identity(self, n, **kw):
        return self.eye(n)

    def array(self, a, dtype=None, like=None, copy=True, **kw):
        if hasattr(a, "__sarr__"):
            return a.__sarr__().copy()
        if isinstance(a, _np.ndarray) and a.dtype != object:
            return _np.array(a, dtype=dtype)
        if not _hassym(a):
            return _np.array(a, dtype=dtype)
        if isinstance(a, _np.ndarray):
            return a.copy(order="K").view(SArr)
        r = _np.array(a, dtype=object)
        return r.view(SArr)

    def asarray(self, a, dtype=None, like=None, **kw):
        if hasattr(a, "__sarr__"):
            return a.__sarr__()
        if isinstance(a, _np.ndarray):
            if a.dtype == object and not isinstance(a, SArr):
                return a.view(SArr)
            return a
        if not _hassym(a):
            return _np.asarray(a, dtype=dtype)
        return _np.array(a, dtype=object).view(SArr)

    asanyarray = asarray
    ascontiguousarray = asarray

    def copy(self, a, **kw):
        return self.array(a)

    # element-wise ------------------------------------------------------------------
    def log(self, a, **kw):
        return v_log(a)

    def exp(self, a, **kw):
        return v_exp(a)

    def sqrt(self, a, **kw):
        return v_sqrt(a)

    def abs(self, a, **kw):
        return v_abs(a)

    absolute = abs
    fabs = abs

    def square(self, a, **kw):
        a = _obj(a)
        return _unbox(_plain(a) * _plain(a))

    def power(self, a, p, **kw):
        return _unbox(_np.power(_plain(_obj(a)), p))

    @staticmethod
    def _into(r, kw):
        out = kw.get("out")
        if out is None:
            return r
        if isinstance(out, tuple):
            out = out[0]
        _np.ndarray.__setitem__(out, Ellipsis, _plain(_obj(r)))
        return out

    def maximum(self, a, b, *args, **kw):
        if args:
            kw["out"] = args[0]
        return self._into(v_max(a, b), kw)

    def minimum(self, a, b, *args, **kw):
        if args:
            kw["out"] = args[0]
        return self._into(v_min(a, b), kw)

    def where(self, c, x=None, y=None):
        if x is None:
            if isinstance(c, _np.ndarray) and c.dtype == object:
                b = _booleanize(_plain(c))
                if b is None:
                    raise Unsupported("where(cond) with a symbolic condition")
                c = b
            return _np.where(c)
        if isinstance(c, _np.ndarray) and c.dtype != object and not _hassym(x) and not _hassym(y):
            return _np.where(c, x, y)
        return v_ite(c, x, y)

    def clip(self, a, a_min=None, a_max=None, out=None, **kw):
        if "min" in kw:
            a_min = kw["min"]
        if "max" in kw:
            a_max = kw["max"]
        r = _obj(a)
        if a_min is not None:
            r = v_max(r, a_min)
        if a_max is not None:
            r = v_min(r, a_max)
        return r

    def isfinite(self, a):
        r = v_isfinite(a)
        return r

    def isnan(self, a):
        return v_isnan(a)

    def sign(self, a):
        return _vec(lambda v: s_ite(v > 0, 1, s_ite(v < 0, -1, 0)))(a)

    # reductions ----------------------------------------------------------------------
    def min(self, a, axis=None, keepdims=False, **kw):
        return r_min(a, axis, keepdims)

    amin = min

    def max(self, a, axis=None, keepdims=False, **kw):
        return r_max(a, axis, keepdims)

    amax = max

    def argmin(self, a, axis=None, **kw):
        if hasattr(a, "__sarr__"):
            a = a.__sarr__()
        return r_argmin(a, axis)

    def argmax(self, a, axis=None, **kw):
        if hasattr(a, "__sarr__"):
            a = a.__sarr__()
        return r_argmax(a, axis)

    def any(self, a, axis=None, **kw):
        return r_any(_obj(a), axis)

    def all(self, a, axis=None, **kw):
        return r_all(_obj(a), axis)

    def mean(self, a, axis=None, dtype=None, out=None, keepdims=False, **kw):
        if hasattr(a, "__sarr__"):
            a = a.__sarr__()
        a = _obj(a)
        if axis is None:
            n = a.size
        elif isinstance(axis, int):
            n = a.shape[axis]
        else:
            n = 1
            for ax in axis:
                n *= a.shape[ax]
        s = _np.sum(_plain(a), axis=axis, keepdims=keepdims)
        return _unbox(s / n)

    average = mean

    def var(self, a, axis=None, dtype=None, out=None, ddof=0, keepdims=False, **kw):
        a = _obj(a)
        m = self.mean(a, axis=axis, keepdims=True)
        d = _plain(a) - _plain(_obj(m))
        n = a.size if axis is None else a.shape[axis]
        return _unbox(_np.sum(d * d, axis=axis, keepdims=keepdims) / (n - ddof))

    def std(self, a, axis=None, ddof=0, keepdims=False, **kw):
        return self.sqrt(self.var(a, axis=axis, ddof=ddof, keepdims=keepdims))

    def cov(self, m, y=None, rowvar=True, bias=False, ddof=None, **kw):
        if y is not None or kw.get("fweights") is not None or kw.get("aweights") is not None:
            raise Unsupported("cov with y/weights")
        if hasattr(m, "__sarr__"):
            m = m.__sarr__()
        X = _plain(_obj(m))
        if X.ndim == 1:
            X = X[None, :]
        if not rowvar and X.shape[0] != 1:
            X = X.T
        n = X.shape[1]
        if ddof is None:
            ddof = 0 if bias else 1
        mu = _np.sum(X, axis=1, keepdims=True) / n
        Xc = X - mu
        c = (Xc @ Xc.T) / (n - ddof)
        return _unbox(_np.squeeze(c) if c.shape == (1, 1) else c)

    def einsum(self, spec, *ops, **kw):
        spec = spec.replace(" ", "")
        if "->" in spec:
            ins, out = spec.split("->")
        else:
            ins = spec
            cnt = {}
            for ch in ins.replace(",", ""):
                cnt[ch] = cnt.get(ch, 0) + 1
            out = "".join(sorted(c for c, k in cnt.items() if k == 1))
        if "." in spec:
            raise Unsupported("einsum ellipsis")
        ins = ins.split(",")
        ops = [_plain(_obj(o)) for o in ops]
        dims = {}
        for s, o in zip(ins, ops):
            if len(s) != o.ndim:
                raise ValueError("einsum operand rank mismatch")
            for ch, d in zip(s, o.shape):
                if dims.setdefault(ch, d) != d:
                    raise ValueError("einsum dimension mismatch")
        summed = [c for c in dims if c not in out]
        res = _np.empty(tuple(dims[c] for c in out), dtype=object)
        for oi in _np.ndindex(*[dims[c] for c in out]):
            env = dict(zip(out, oi))
            acc = 0
            for si in itertools.product(*[range(dims[c]) for c in summed]):
                env.update(zip(summed, si))
                t = 1
                for s, o in zip(ins, ops):
                    t = t * o[tuple(env[c] for c in s)]
                acc = acc + t
            res[oi] = acc
        return _unbox(res)

    def _norm(self, a, ord=None, axis=None, **kw):
        if ord not in (None, 2, "fro"):
            raise Unsupported("norm ord")
        a = _plain(_obj(a))
        return self.sqrt(_unbox(_np.sum(a * a, axis=axis)))

    def logical_not(self, a, **kw):
        return v_not(a)

    invert = logical_not

    def logical_and(self, a, b, **kw):
        return v_and(a, b)

    def logical_or(self, a, b, **kw):
        return v_or(a, b)

    # predicates as formulas ------------------------------------------------------------
    def isclose(self, a, b, rtol=1e-5, atol=1e-8, equal_nan=False):
        a, b = _obj(a), _obj(b)
        d = v_abs(_unbox(_plain(a) - _plain(b)))
        lim = _unbox(atol + rtol * _plain(_obj(v_abs(b))))
        r = _obj(d) <= lim
        return _unbox(r) if isinstance(r, _np.ndarray) else r

    def allclose(self, a, b, rtol=1e-5, atol=1e-8, equal_nan=False):
        r = self.isclose(a, b, rtol, atol)
        return _conj(r)

    def array_equal(self, a, b, equal_nan=False):
        a, b = _obj(a), _obj(b)
        if a.shape != b.shape:
            return False
        return _conj(a == b)

    def shares_memory(self, a, b, **kw):
        return _np.shares_memory(_plain(_np.asarray(a)), _plain(_np.asarray(b)))

    may_share_memory = shares_memory


def _conj(r):
    if isinstance(r, (bool, _np.bool_)):
        return bool(r)
    if isinstance(r, SB):
        return r
    zs = []
    for v in _np.asarray(r, dtype=object).flat:
        if isinstance(v, SB):
            zs.append(v.z)
        elif not v:
            return False
    if not zs:
        return True
    return SB(z3.And(*zs))


NP = NPShim()

def _logic(f):
    def g(*args):
        args = [_plain(_obj(a)) for a in args]
        return _unbox(_np.frompyfunc(f, len(args), 1)(*args))

    return g


def _b(v):
    return v if isinstance(v, SB) else (SB(z3.BoolVal(bool(v))) if not isinstance(v, (SV, SInt)) else SB(z3.Or(badz(v), _z(v) != 0)))


v_not = _logic(lambda a: ~_b(a) if isinstance(a, (SB, SV, SInt)) else (not a))
v_and = _logic(lambda a, b: (_b(a) & _b(b)) if isinstance(a, (SB, SV, SInt)) or isinstance(b, (SB, SV, SInt)) else (bool(a) and bool(b)))
v_or = _logic(lambda a, b: (_b(a) | _b(b)) if isinstance(a, (SB, SV, SInt)) or isinstance(b, (SB, SV, SInt)) else (bool(a) or bool(b)))


class _UfuncWrap:
    """a pass-through NumPy ufunc that keeps its methods (reduce, reduceat, outer, accumulate, at)"""

    def __init__(self, uf):
        self._uf = uf
        self.__name__ = uf.__name__

    def __call__(self, *a, **k):
        return _wrap(self._uf)(*a, **k)

    def __getattr__(self, n):
        return _wrap(getattr(self._uf, n))


_UFUNC_TABLE = {
    _np.maximum: v_max,
    _np.minimum: v_min,
    _np.fmax: v_max,
    _np.fmin: v_min,
    _np.log: v_log,
    _np.exp: v_exp,
    _np.sqrt: v_sqrt,
    _np.absolute: v_abs,
    _np.fabs: v_abs,
    _np.isfinite: v_isfinite,
    _np.isnan: v_isnan,
    _np.logaddexp: lambda a, b: NP.logaddexp(a, b),
    _np.invert: v_not,
    _np.logical_not: v_not,
    _np.bitwise_and: v_and,
    _np.logical_and: v_and,
    _np.bitwise_or: v_or,
    _np.logical_or: v_or,
}


# --------------------------------------------------------------------------------------
# scipy replacement


def cdist(XA, XB, metric="euclidean", **kw):
    if metric != "sqeuclidean":
        raise Unsupported("cdist metric %r" % (metric,))
    A, B = _plain(_obj(XA)), _plain(_obj(XB))
    if A.ndim != 2 or B.ndim != 2:
        raise ValueError("XA and XB must be 2-dimensional")
    if A.shape[1] != B.shape[1]:
        raise ValueError("XA and XB must have the same number of columns (i.e. feature dimension.)")
    out = _np.empty((A.shape[0], B.shape[0]), dtype=object)
    for i in range(A.shape[0]):
        for j in range(B.shape[0]):
            s = 0
            for d in range(A.shape[1]):
                t = A[i, d] - B[j, d]
                s = s + t * t
            out[i, j] = s
    return out.view(SArr)


def logsumexp(a, axis=None, keepdims=False, b=None, return_sign=False):
    if b is not None or return_sign:
        raise Unsupported("logsumexp weights/sign")
    return r_lse(a, axis=axis, keepdims=keepdims)


class SciPyShim:
    def __init__(self, np_shim):
        la = np_shim.LA
        self.linalg = types.SimpleNamespace(
            inv=la.inv,
            pinv=la.pinv,
            cholesky=la.cholesky,
            solve=la.solve,
            det=la.det,
            LinAlgError=_np.linalg.LinAlgError,
        )
        self.spatial = types.SimpleNamespace(distance=types.SimpleNamespace(cdist=cdist))
        self.special = types.SimpleNamespace(logsumexp=logsumexp)


SCIPY = SciPyShim(NP)
