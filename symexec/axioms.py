"""Sound axiom instances for the uninterpreted ln / ex / sqrt, generated for the terms
that actually occur, plus incremental-linearisation lemmas at model points."""
import math
from fractions import Fraction

import z3

from .core import EX, LN, SQ


def R(fr):
    fr = Fraction(fr)
    return z3.RealVal("%d/%d" % (fr.numerator, fr.denominator))


def apps(exprs):
    """all ln/ex/sqrt applications in the given terms"""
    seen = set()
    out = {"ln": [], "ex": [], "sqrt": []}
    stack = list(exprs)
    while stack:
        e = stack.pop()
        k = e.get_id()
        if k in seen:
            continue
        seen.add(k)
        if z3.is_app(e):
            n = e.decl().name()
            if n in out and e.num_args() == 1 and e.decl().kind() == z3.Z3_OP_UNINTERPRETED:
                out[n].append(e)
            stack.extend(e.children())
    return out


def addends(t, sign=1, acc=None):
    """top-level additive decomposition: list of (sign, term)"""
    if acc is None:
        acc = []
    k = t.decl().kind() if z3.is_app(t) else None
    if k == z3.Z3_OP_ADD:
        for c in t.children():
            addends(c, sign, acc)
    elif k == z3.Z3_OP_SUB:
        ch = t.children()
        addends(ch[0], sign, acc)
        for c in ch[1:]:
            addends(c, -sign, acc)
    elif k == z3.Z3_OP_UMINUS:
        addends(t.arg(0), -sign, acc)
    elif k == z3.Z3_OP_MUL and t.num_args() == 2 and z3.is_rational_value(t.arg(0)) and abs(t.arg(0).as_fraction()) == 1:
        addends(t.arg(1), sign * int(t.arg(0).as_fraction()), acc)
    else:
        acc.append((sign, t))
    return acc


def _is(t, name):
    return z3.is_app(t) and t.decl().kind() == z3.Z3_OP_UNINTERPRETED and t.decl().name() == name and t.num_args() == 1


def _const_val(t):
    if z3.is_rational_value(t):
        return t.as_fraction()
    return None


def _enclose(x, rel=1e-13):
    """rational enclosure [lo, hi] of float x"""
    f = Fraction(x)
    eps = Fraction(rel) * max(Fraction(1), abs(f))
    return f - eps, f + eps


def gen(exprs, rounds=4, counts=None):
    """axiom instances for all transcendental applications reachable from exprs"""
    if counts is None:
        counts = {}
    ax = []
    done = set()
    cur = list(exprs)

    def cnt(k):
        counts[k] = counts.get(k, 0) + 1

    for _ in range(rounds):
        new = []
        found = apps(cur)
        for e in found["ex"]:
            if e.get_id() in done:
                continue
            done.add(e.get_id())
            new.append(e > 0)
            cnt("ex_positive")
            t = e.arg(0)
            c = _const_val(t)
            if c is not None:
                if c == 0:
                    new.append(e == 1)
                elif abs(c) < 700:
                    lo, hi = _enclose(math.exp(float(c)))
                    new.append(z3.And(e >= R(lo), e <= R(hi)))
                cnt("const_enclosure")
                continue
            ads = addends(t)
            num, den, rest = [], [], []
            for sg, a in ads:
                if _is(a, "ln"):
                    (num if sg > 0 else den).append(a.arg(0))
                else:
                    rest.append((sg, a))
            if num or den:
                # ex(R + sum ln a - sum ln b) * prod b = ex(R) * prod a    (a, b > 0)
                if rest:
                    Rt = None
                    for sg, a in rest:
                        term = a if sg > 0 else -a
                        Rt = term if Rt is None else Rt + term
                    er = EX(Rt)
                else:
                    er = z3.RealVal(1)
                lhs, rhs = e, er
                for b in den:
                    lhs = lhs * b
                for a in num:
                    rhs = rhs * a
                pos = [a > 0 for a in num + den]
                new.append(z3.Implies(z3.And(*pos), lhs == rhs))
                cnt("ex_ln_split")
            elif len(ads) > 1 and any(_is(a, "ex") is False for _, a in ads):
                pass
        for e in found["ln"]:
            if e.get_id() in done:
                continue
            done.add(e.get_id())
            s = e.arg(0)
            c = _const_val(s)
            if c is not None and c > 0:
                if c == 1:
                    new.append(e == 0)
                else:
                    lo, hi = _enclose(math.log(float(c)))
                    new.append(z3.And(e >= R(lo), e <= R(hi)))
                cnt("const_enclosure")
                continue
            if _is(s, "ex"):
                new.append(e == s.arg(0))
                cnt("ln_ex")
            elif z3.is_app(s) and s.decl().kind() == z3.Z3_OP_ADD and all(_is(c, "ex") for c in s.children()):
                # log-sum-exp dominates each of its arguments
                for c in s.children():
                    new.append(e >= c.arg(0))
                new.append(EX(e) == s)
                cnt("lse_lower_bound")
            else:
                # ex(ln s) = s links ln-terms to the exponential world
                new.append(z3.Implies(s > 0, EX(e) == s))
                cnt("ex_ln")
        for e in found["sqrt"]:
            if e.get_id() in done:
                continue
            done.add(e.get_id())
            s = e.arg(0)
            c = _const_val(s)
            if c is not None and c >= 0:
                lo, hi = _enclose(math.sqrt(float(c)))
                new.append(z3.And(e >= R(lo), e <= R(hi), e * e == s))
                cnt("const_enclosure")
                continue
            new.append(z3.Implies(s >= 0, z3.And(e * e == s, e >= 0)))
            new.append(z3.Implies(s > 0, e > 0))
            cnt("sqrt_def")
        if not new:
            break
        ax += new
        cur = new
    return ax


def ln_tangent(t):
    """ln t <= t - 1 for t > 0 (instance)"""
    return z3.Implies(t > 0, LN(t) <= t - 1)


def ln_prod(a, b):
    return z3.Implies(z3.And(a > 0, b > 0), LN(a * b) == LN(a) + LN(b))


def ln_quot(a, b):
    return z3.Implies(z3.And(a > 0, b > 0), LN(a / b) == LN(a) - LN(b))


def linearise(model_eval, exprs, tol=1e-7):
    """Incremental linearisation (Cimatti et al.): for every ln/ex/sqrt application whose
    model value is off from the true function at the model's argument, return sound tangent /
    secant lemmas at that point.  model_eval(term) -> float."""
    lem = []
    found = apps(exprs)
    for e in found["ln"]:
        u, v = model_eval(e.arg(0)), model_eval(e)
        if u is None or v is None or not (u > 0):
            continue
        true = math.log(u)
        if abs(true - v) <= tol * max(1.0, abs(true)):
            continue
        t0 = Fraction(u).limit_denominator(10**6)
        if t0 <= 0:
            t0 = Fraction(1, 10**6)
        _, hi = _enclose(math.log(float(t0)), 1e-12)
        x = e.arg(0)
        # concave: ln x <= ln t0 + (x - t0)/t0
        lem.append(z3.Implies(x > 0, e <= R(hi) + (x - R(t0)) / R(t0)))
        # ln x = -ln(1/x) >= -(ln(1/t0) + (1/x - 1/t0) t0) = ln t0 + 1 - t0/x
        lo, _ = _enclose(math.log(float(t0)), 1e-12)
        lem.append(z3.Implies(x > 0, e >= R(lo) + 1 - R(t0) / x))
    for e in found["ex"]:
        u, v = model_eval(e.arg(0)), model_eval(e)
        if u is None or v is None or abs(u) > 600:
            continue
        true = math.exp(u)
        if abs(true - v) <= tol * max(1.0, abs(true)):
            continue
        t0 = Fraction(u).limit_denominator(10**6)
        lo, hi = _enclose(math.exp(float(t0)), 1e-12)
        x = e.arg(0)
        # convex: ex(x) >= ex(t0) (1 + x - t0)
        lem.append(e >= R(lo) * (1 + x - R(t0)))
        # ex(x) = 1/ex(-x) <= 1/(ex(-t0)(1 - x + t0)) when 1 - x + t0 > 0
        lem.append(z3.Implies(1 - x + R(t0) > 0, e * (1 - x + R(t0)) <= R(hi)))
    for e in found["sqrt"]:
        u, v = model_eval(e.arg(0)), model_eval(e)
        if u is None or v is None or u < 0:
            continue
        true = math.sqrt(u)
        if abs(true - v) <= tol * max(1.0, abs(true)):
            continue
        lem.append(z3.Implies(e.arg(0) >= 0, z3.And(e * e == e.arg(0), e >= 0)))
    return lem
