"""A small executable model of the parts of Dask the package uses.

* ``DArr``   – dask.array.Array: eager symbolic data + a ``chunks`` tuple.  Contract: a
  Dask array expression equals the NumPy expression on the concatenated blocks; the
  block structure is observable through ``to_delayed``, ``blocks`` and ``reduction``.
* ``Delayed``/``delayed``/``compute`` – task graph with an explicit **executor model**:
  task order (policy) and isolation (deep copies of task inputs/outputs = what
  serialisation to a worker does to object identity).
* ``Bag`` – dask.bag.Bag as a list of partitions.
"""
import copy
import itertools
import operator
import random
import types

import numpy as _np

from .core import SB, SInt, SV, Unsupported
from .shim import NP, SArr, _obj, _plain, _unbox

EXEC = {
    "policy": "fifo",  # 'fifo' | 'lifo' | ('rand', seed) | ('prio', [node ids])
    "isolated": False,
    "log": [],  # executed node ids, per compute call
    "graphs": [],  # recorded (nodes, deps) per compute call
    "tasks": 0,
}


def set_executor(policy="fifo", isolated=False):
    EXEC["policy"] = policy
    EXEC["isolated"] = isolated
    EXEC["log"] = []
    EXEC["graphs"] = []
    EXEC["tasks"] = 0
    Delayed._ids = itertools.count()


# --------------------------------------------------------------------------------------
# arrays


def _norm_chunks(chunks, shape):
    if chunks is None or chunks == "auto" or chunks == -1:
        return tuple((s,) for s in shape)
    if isinstance(chunks, dict):
        chunks = tuple(chunks.get(i, chunks.get(i - len(shape), None)) for i in range(len(shape)))
    if isinstance(chunks, int):
        chunks = (chunks,) * len(shape)
    out = []
    for c, s in zip(chunks, shape):
        if c is None:
            out.append(None)
            continue
        if isinstance(c, int):
            if c == -1 or c >= s:
                out.append((s,) if s else (0,))
            else:
                q, r = divmod(s, c)
                out.append((c,) * q + ((r,) if r else ()))
        else:
            c = tuple(int(x) for x in c)
            if sum(c) != s:
                raise ValueError("chunks %r do not add up to shape %r" % (chunks, shape))
            out.append(c)
    return tuple(out)


class DArr:
    __sarr_priority__ = True
    __array_ufunc__ = None
    __array_priority__ = 1000

    def __init__(self, data, chunks=None):
        if isinstance(data, _np.ndarray) and data.dtype.kind in "biu":
            self.data = data  # concrete index / mask arrays stay concrete
        else:
            self.data = _obj(data)
        self.chunks = _norm_chunks(chunks, self.data.shape)

    # -- basic protocol
    def __sarr__(self):
        return self.data

    @property
    def shape(self):
        return self.data.shape

    @property
    def ndim(self):
        return self.data.ndim

    @property
    def size(self):
        return self.data.size

    @property
    def dtype(self):
        return _np.dtype(float)

    @property
    def numblocks(self):
        return tuple(len(c) for c in self.chunks)

    @property
    def npartitions(self):
        n = 1
        for c in self.chunks:
            n *= len(c)
        return n

    def __len__(self):
        return len(self.data)

    def __iter__(self):
        for i in range(len(self.data)):
            yield self[i]

    def __deepcopy__(self, memo):
        return DArr(copy.deepcopy(self.data, memo), self.chunks)

    def compute(self, **kw):
        return self.data.copy()

    def persist(self, **kw):
        return self

    def rechunk(self, *a, **k):
        chunks = a[0] if len(a) == 1 else (a if a else k.get("chunks"))
        ch = _norm_chunks(chunks, self.shape)
        ch = tuple(c if c is not None else self.chunks[i] for i, c in enumerate(ch))
        return DArr(self.data, ch)

    def astype(self, *a, **k):
        return self

    def copy(self):
        return DArr(self.data.copy(), self.chunks)

    # -- blocks
    def _block_slices(self):
        axes = []
        for c in self.chunks:
            pos, sl = 0, []
            for k in c:
                sl.append(slice(pos, pos + k))
                pos += k
            axes.append(sl)
        return axes

    def to_delayed(self, optimize_graph=True):
        axes = self._block_slices()
        out = _np.empty(tuple(len(a) for a in axes), dtype=object)
        for idx in _np.ndindex(*out.shape):
            blk = self.data[tuple(axes[d][i] for d, i in enumerate(idx))]
            out[idx] = Delayed.leaf(blk.copy().view(SArr), "block%r" % (idx,))
        return out

    @property
    def blocks(self):
        me = self

        class _B:
            def __getitem__(s, idx):
                if not isinstance(idx, tuple):
                    idx = (idx,)
                axes = me._block_slices()
                sl, ch = [], []
                for d in range(me.ndim):
                    if d < len(idx) and isinstance(idx[d], int):
                        sl.append(axes[d][idx[d]])
                        ch.append((me.chunks[d][idx[d]],))
                    else:
                        sl.append(slice(None))
                        ch.append(me.chunks[d])
                return DArr(me.data[tuple(sl)], tuple(ch))

        return _B()

    # -- arithmetic (eager, chunks follow the Dask operand)
    def _res(self, r, other=None):
        if not isinstance(r, _np.ndarray):
            r = _obj(r)
        for cand in (self, other):
            if isinstance(cand, DArr) and cand.shape == r.shape:
                return DArr(r, cand.chunks)
        # broadcasting: take chunks of matching trailing axes from self
        ch = []
        for ax in range(r.ndim):
            c = None
            for cand in (self, other):
                if isinstance(cand, DArr):
                    cax = ax - (r.ndim - cand.ndim)
                    if cax >= 0 and cand.shape[cax] == r.shape[ax]:
                        c = cand.chunks[cax]
                        break
            ch.append(c if c is not None else (r.shape[ax],))
        return DArr(r, tuple(ch))

    def _bin(self, o, f, rev=False):
        od = o.data if isinstance(o, DArr) else o
        if isinstance(od, _np.ndarray):
            od = _plain(od)
        a = _plain(self.data)
        r = f(od, a) if rev else f(a, od)
        return self._res(r, o)

    def __add__(s, o):
        return s._bin(o, operator.add)

    def __radd__(s, o):
        return s._bin(o, operator.add, True)

    def __sub__(s, o):
        return s._bin(o, operator.sub)

    def __rsub__(s, o):
        return s._bin(o, operator.sub, True)

    def __mul__(s, o):
        return s._bin(o, operator.mul)

    def __rmul__(s, o):
        return s._bin(o, operator.mul, True)

    def __truediv__(s, o):
        return s._bin(o, operator.truediv)

    def __rtruediv__(s, o):
        return s._bin(o, operator.truediv, True)

    def __pow__(s, o):
        return s._bin(o, operator.pow)

    def __neg__(s):
        return DArr(-_plain(s.data), s.chunks)

    def __matmul__(s, o):
        od = o.data if isinstance(o, DArr) else _obj(o)
        r = _plain(s.data) @ _plain(od)
        return DArr(r)

    def __rmatmul__(s, o):
        r = _plain(_obj(o)) @ _plain(s.data)
        return DArr(r)

    def _cmp(s, o, f):
        od = o.data if isinstance(o, DArr) else o
        return s._res(f(s.data, od), o)

    def __lt__(s, o):
        return s._cmp(o, operator.lt)

    def __le__(s, o):
        return s._cmp(o, operator.le)

    def __gt__(s, o):
        return s._cmp(o, operator.gt)

    def __ge__(s, o):
        return s._cmp(o, operator.ge)

    def __eq__(s, o):
        return s._cmp(o, operator.eq)

    def __ne__(s, o):
        return s._cmp(o, operator.ne)

    __hash__ = None

    @property
    def T(self):
        return DArr(self.data.T, tuple(reversed(self.chunks)))

    def transpose(self, *axes):
        if not axes:
            return self.T
        if len(axes) == 1 and isinstance(axes[0], (tuple, list)):
            axes = tuple(axes[0])
        return DArr(self.data.transpose(*axes), tuple(self.chunks[a] for a in axes))

    def sum(self, axis=None, keepdims=False, **kw):
        return DA.sum(self, axis=axis, keepdims=keepdims)

    def mean(self, axis=None, keepdims=False, **kw):
        return DA.mean(self, axis=axis, keepdims=keepdims)

    def min(self, axis=None, **kw):
        return DA.min(self, axis=axis)

    def max(self, axis=None, **kw):
        return DA.max(self, axis=axis)

    def argmin(self, axis=None, **kw):
        return DA.argmin(self, axis=axis)

    def reshape(self, *shape):
        if len(shape) == 1 and isinstance(shape[0], (tuple, list)):
            shape = tuple(shape[0])
        return DArr(self.data.reshape(shape))

    def flatten(self):
        return DArr(self.data.flatten())

    ravel = flatten

    def __getitem__(self, key):
        if isinstance(key, DArr):
            key = key.data
        if isinstance(key, tuple):
            key = tuple(k.data if isinstance(k, DArr) else k for k in key)
        r = self.data[key]
        if not isinstance(r, _np.ndarray):
            return DArr(_obj(r), ())
        # derive chunks for simple keys
        keys = key if isinstance(key, tuple) else (key,)
        ch, ax, ok = [], 0, True
        for k in keys:
            if k is None:
                ch.append((1,))
            elif isinstance(k, slice) and k == slice(None):
                ch.append(self.chunks[ax])
                ax += 1
            elif isinstance(k, (int, _np.integer)):
                ax += 1
            elif k is Ellipsis:
                ok = False
                break
            else:
                # fancy / boolean / partial slice: dask keeps one output chunk per input chunk;
                # the model uses a single chunk (block structure of such results is not observed)
                if isinstance(k, _np.ndarray) and k.dtype == bool and k.ndim > 1:
                    ok = False
                    break
                ch.append(None)
                ax += 1
        if ok:
            while ax < self.ndim:
                ch.append(self.chunks[ax])
                ax += 1
            if len(ch) == r.ndim:
                ch = tuple(c if c is not None and sum(c) == r.shape[i] else (r.shape[i],) for i, c in enumerate(ch))
                return DArr(r, ch)
        return DArr(r)

    def __repr__(self):
        return "DArr(shape=%r, chunks=%r)" % (self.shape, self.chunks)


def _dd(x):
    return x.data if isinstance(x, DArr) else x


class _DA:
    """stands in for the ``dask.array`` module (and for numpy functions applied to DArr)"""

    Array = DArr

    def __init__(self):
        self.core = types.SimpleNamespace(Array=DArr)
        self.linalg = types.SimpleNamespace(
            inv=lambda A: DArr(NP.LA.inv(_dd(A))),
            cholesky=lambda A, lower=False: DArr(NP.LA.cholesky(_dd(A), lower=lower)),
            solve=lambda A, b: DArr(NP.LA.solve(_dd(A), _dd(b))),
        )

    def from_array(self, x, chunks="auto", **kw):
        if isinstance(x, DArr):
            return x.rechunk(chunks)
        return DArr(NP.array(x), chunks)

    def array(self, x, **kw):
        if isinstance(x, DArr):
            return x
        if isinstance(x, (list, tuple)) and any(isinstance(y, DArr) for y in x):
            return self.stack([y if isinstance(y, DArr) else DArr(NP.asarray(y)) for y in x])
        return DArr(NP.asarray(x))

    asarray = array

    def rechunk(self, x, chunks):
        return x.rechunk(chunks)

    # generic: numpy semantics on concatenated blocks
    def __getattr__(self, name):
        f = getattr(NP, name)
        if not callable(f):
            return f

        def g(*a, **k):
            k.pop("like", None)
            first = None
            aa = []
            for x in a:
                if isinstance(x, DArr):
                    first = first or x
                    aa.append(x.data)
                elif isinstance(x, (list, tuple)) and any(isinstance(y, DArr) for y in x):
                    first = first or [y for y in x if isinstance(y, DArr)][0]
                    aa.append(type(x)(_dd(y) for y in x))
                else:
                    aa.append(x)
            r = f(*aa, **k)
            if isinstance(r, tuple):
                return tuple(DArr(x) if isinstance(x, _np.ndarray) else x for x in r)
            if isinstance(r, _np.ndarray) or isinstance(r, (SV, SB)):
                if first is not None:
                    return first._res(r)
                return DArr(r)
            return r

        g.__name__ = name
        return g

    def _drop(self, x, axis, keepdims, r):
        if not isinstance(r, _np.ndarray):
            r = _obj(r)
        if axis is None:
            return DArr(r)
        axes = (axis,) if isinstance(axis, int) else tuple(axis)
        axes = tuple(a % x.ndim for a in axes)
        ch = []
        for i, c in enumerate(x.chunks):
            if i in axes:
                if keepdims:
                    ch.append((1,))
            else:
                ch.append(c)
        return DArr(r, tuple(ch))

    def sum(self, x, axis=None, keepdims=False, **kw):
        if isinstance(x, (list, tuple)):
            x = self.stack(list(x))
        r = _np.sum(_plain(x.data), axis=axis, keepdims=keepdims)
        return self._drop(x, axis, keepdims, r)

    def mean(self, x, axis=None, keepdims=False, **kw):
        r = NP.mean(x.data, axis=axis, keepdims=keepdims)
        return self._drop(x, axis, keepdims, r)

    def min(self, x, axis=None, keepdims=False, **kw):
        return self._drop(x, axis, keepdims, NP.min(x.data, axis=axis, keepdims=keepdims))

    def max(self, x, axis=None, keepdims=False, **kw):
        return self._drop(x, axis, keepdims, NP.max(x.data, axis=axis, keepdims=keepdims))

    def argmin(self, x, axis=None, **kw):
        return self._drop(x, axis, False, NP.argmin(x.data, axis=axis))

    def atleast_2d(self, x):
        if x.ndim >= 2:
            return x
        if x.ndim == 1:
            return DArr(x.data[None, :], ((1,), x.chunks[0]))
        return DArr(x.data.reshape(1, 1))

    def vstack(self, xs, **kw):
        xs = [x if isinstance(x, DArr) else DArr(NP.asarray(x)) for x in xs]
        xs = [self.atleast_2d(x) for x in xs]
        r = _np.vstack([_plain(x.data) for x in xs])
        c0 = tuple(itertools.chain.from_iterable(x.chunks[0] for x in xs))
        return DArr(r, (c0,) + tuple(xs[0].chunks[1:]))

    def concatenate(self, xs, axis=0, **kw):
        xs = [x if isinstance(x, DArr) else DArr(NP.asarray(x)) for x in xs]
        r = _np.concatenate([_plain(x.data) for x in xs], axis=axis)
        ax = axis % xs[0].ndim
        ch = list(xs[0].chunks)
        ch[ax] = tuple(itertools.chain.from_iterable(x.chunks[ax] for x in xs))
        return DArr(r, tuple(ch))

    def stack(self, xs, axis=0, **kw):
        xs = [x if isinstance(x, DArr) else DArr(NP.asarray(x)) for x in xs]
        r = _np.stack([_plain(x.data) for x in xs], axis=axis)
        ch = list(xs[0].chunks)
        ch.insert(axis % (xs[0].ndim + 1), (1,) * len(xs))
        return DArr(r, tuple(ch))

    def transpose(self, x, axes=None):
        return x.transpose(*(axes or ()))

    def reduction(self, x, chunk, aggregate, axis=None, keepdims=False, dtype=None, combine=None, **kw):
        """dask.array.reduction: chunk() on every block (keepdims=True), concatenate along
        the reduced axes, aggregate()."""
        if axis is None:
            axis = tuple(range(x.ndim))
        axes = (axis,) if isinstance(axis, int) else tuple(axis)
        axes = tuple(a % x.ndim for a in axes)
        if len(axes) != 1:
            raise Unsupported("reduction over several axes")
        ax = axes[0]
        bs = x._block_slices()
        parts = _np.empty(tuple(len(s) for s in bs), dtype=object)
        for idx in _np.ndindex(*parts.shape):
            blk = x.data[tuple(bs[d][i] for d, i in enumerate(idx))]
            parts[idx] = _obj(chunk(blk, axis=ax, keepdims=True))
        # concatenate partial results along ax for every position of the other axes, then along them
        def assemble(level, idx):
            if level == x.ndim:
                return _plain(parts[tuple(idx)])
            pieces = [assemble(level + 1, idx + [i]) for i in range(parts.shape[level])]
            return _np.concatenate(pieces, axis=level)

        whole = assemble(0, [])
        r = aggregate(whole.view(SArr), axis=ax, keepdims=keepdims)
        return self._drop(x, ax, keepdims, r)

    def where(self, c, x=None, y=None):
        if x is None:
            r = NP.where(_dd(c))
            return tuple(DArr(i) for i in r)
        return DArr(NP.where(_dd(c), _dd(x), _dd(y)))

    def cov(self, m, **kw):
        return DArr(NP.cov(_dd(m), **kw))

    def zeros(self, shape, dtype=None, chunks="auto", **kw):
        return DArr(NP.zeros(shape), chunks if chunks != "auto" else None)

    def ones(self, shape, dtype=None, chunks="auto", **kw):
        return DArr(NP.ones(shape), chunks if chunks != "auto" else None)


DA = _DA()


# --------------------------------------------------------------------------------------
# delayed / compute


class Delayed:
    _ids = itertools.count()

    def __init__(self, func, args=(), kwargs=None, label=None):
        self.id = next(Delayed._ids)
        self.func = func
        self.args = args
        self.kwargs = kwargs or {}
        self.label = label or getattr(func, "__name__", "task")
        self.value = None
        self.is_leaf = False
        self._length = None

    @classmethod
    def leaf(cls, value, label="leaf"):
        d = cls(None, label=label)
        d.value = value
        d.is_leaf = True
        return d

    @property
    def key(self):
        return "%s-%d" % (self.label, self.id)

    def compute(self, **kw):
        return compute(self)[0]

    def persist(self, **kw):
        v = compute(self)[0]
        d = Delayed.leaf(v, self.label + "-persisted")
        d._length = self._length
        return d

    def __iter__(self):
        if self._length is None:
            raise TypeError("Delayed objects of unspecified length are not iterable")
        for i in range(self._length):
            yield self[i]

    def __len__(self):
        if self._length is None:
            raise TypeError("Delayed objects of unspecified length have no len()")
        return self._length

    def __getitem__(self, k):
        return Delayed(operator.getitem, (self, k), label="getitem")

    def __bool__(self):
        raise TypeError("Truth of Delayed objects is not supported")

    def _op(self, f, o, rev=False):
        return Delayed(f, (o, self) if rev else (self, o), label=f.__name__)

    def __add__(s, o):
        return s._op(operator.add, o)

    def __radd__(s, o):
        return s._op(operator.add, o, True)

    def __sub__(s, o):
        return s._op(operator.sub, o)

    def __mul__(s, o):
        return s._op(operator.mul, o)

    def __rmul__(s, o):
        return s._op(operator.mul, o, True)

    def __truediv__(s, o):
        return s._op(operator.truediv, o)

    def __getattr__(self, n):
        if n.startswith("_"):
            raise AttributeError(n)
        return Delayed(getattr, (self, n), label="getattr")

    def __call__(self, *a, **k):
        return Delayed(lambda f, *aa, **kk: f(*aa, **kk), (self,) + a, k, label="call")

    def __deepcopy__(self, memo):
        return self


class _DelayedFn:
    """``dask.delayed`` – callable, and namespace carrying ``Delayed``"""

    Delayed = Delayed

    def __call__(self, obj, name=None, pure=None, nout=None, traverse=True):
        if isinstance(obj, Delayed):
            return obj
        if callable(obj):
            def make(*a, **k):
                k.pop("dask_key_name", None)
                return Delayed(obj, a, k)

            make.__name__ = getattr(obj, "__name__", "delayed")
            return make
        return Delayed.leaf(obj, "literal")


delayed = _DelayedFn()


def _deps(x, acc):
    if isinstance(x, Delayed):
        acc.append(x)
    elif isinstance(x, (list, tuple, set)):
        for y in x:
            _deps(y, acc)
    elif isinstance(x, dict):
        for y in x.values():
            _deps(y, acc)
    elif isinstance(x, _np.ndarray) and x.dtype == object and x.size and isinstance(x.flat[0], Delayed):
        for y in x.flat:
            _deps(y, acc)
    return acc


def _subst(x, val):
    """replace Delayed/DArr/Bag inside nested containers by their values"""
    if isinstance(x, Delayed):
        return val[x.id]
    if isinstance(x, DArr):
        return x.data
    if isinstance(x, Bag):
        return x.compute()
    if isinstance(x, list):
        return [_subst(y, val) for y in x]
    if isinstance(x, tuple):
        return tuple(_subst(y, val) for y in x)
    if isinstance(x, dict):
        return {k: _subst(v, val) for k, v in x.items()}
    return x


def _iso(x):
    return copy.deepcopy(x)


def _run_task(node, val):
    args = _subst(node.args, val)
    kwargs = _subst(node.kwargs, val)
    f = node.func
    if EXEC["isolated"]:
        args, kwargs = _iso((args, kwargs))
        if isinstance(f, types.MethodType):
            f = types.MethodType(f.__func__, _iso(f.__self__))
    r = f(*args, **kwargs)
    if EXEC["isolated"]:
        r = _iso(r)
    EXEC["tasks"] += 1
    return r


def compute(*args, **kw):
    roots = _deps(list(args), [])
    # collect graph
    nodes, deps, seen = {}, {}, set()
    stack = list(roots)
    while stack:
        n = stack.pop()
        if n.id in seen:
            continue
        seen.add(n.id)
        nodes[n.id] = n
        d = [] if n.is_leaf else _deps([n.args, n.kwargs], [])
        deps[n.id] = sorted({x.id for x in d})
        stack.extend(d)
    val = {}
    for i, n in nodes.items():
        if n.is_leaf:
            val[i] = n.value
    todo = {i for i in nodes if i not in val}
    order = []
    pol = EXEC["policy"]
    rng = random.Random(pol[1]) if isinstance(pol, tuple) and pol[0] == "rand" else None
    prio = {n: k for k, n in enumerate(pol[1])} if isinstance(pol, tuple) and pol[0] == "prio" else None
    while todo:
        ready = sorted(i for i in todo if all(d in val for d in deps[i]))
        if not ready:
            raise RuntimeError("cycle in task graph")
        if pol == "fifo":
            i = ready[0]
        elif pol == "lifo":
            i = ready[-1]
        elif rng is not None:
            i = rng.choice(ready)
        elif prio is not None:
            i = min(ready, key=lambda n: prio.get(n, 10**9 + n))
        else:
            raise Unsupported("executor policy %r" % (pol,))
        val[i] = _run_task(nodes[i], val)
        todo.discard(i)
        order.append(i)
    EXEC["log"].append(order)
    EXEC["graphs"].append(({i: nodes[i].label for i in nodes if not nodes[i].is_leaf}, {i: [d for d in deps[i] if not nodes[d].is_leaf] for i in deps if not nodes[i].is_leaf}))
    out = _subst(tuple(args), val)
    if EXEC["isolated"]:
        # results travel back from the workers: new objects
        out = tuple(_iso(o) if _deps([a], []) else o for o, a in zip(out, args))
    return out


def optimize(*args, **kw):
    return args


def persist(*args, **kw):
    return tuple(a.persist() if hasattr(a, "persist") else a for a in args)


# --------------------------------------------------------------------------------------
# bags


class Bag:
    def __init__(self, partitions):
        self.partitions = [list(p) for p in partitions]

    @property
    def npartitions(self):
        return len(self.partitions)

    def persist(self, **kw):
        return self

    def to_delayed(self, optimize_graph=True):
        return [Delayed.leaf(list(p), "bag-part%d" % i) for i, p in enumerate(self.partitions)]

    def map_partitions(self, f, *a, **k):
        return _MappedBag([f(list(p), *a, **k) for p in self.partitions])

    def map(self, f, *a, **k):
        return Bag([[f(x, *a, **k) for x in p] for p in self.partitions])

    def compute(self, **kw):
        return [x for p in self.partitions for x in p]

    def __iter__(self):
        return iter(self.compute())

    def __deepcopy__(self, memo):
        return Bag(copy.deepcopy(self.partitions, memo))


class _MappedBag(Bag):
    def __init__(self, results):
        self.results = results
        if all(isinstance(r, (list, tuple)) for r in results):
            self.partitions = [list(r) for r in results]
        else:
            self.partitions = [[r] for r in results]

    def compute(self, **kw):
        return [x for p in self.partitions for x in p]


def from_sequence(seq, partition_size=None, npartitions=None):
    seq = list(seq)
    if npartitions is None and partition_size is None:
        npartitions = min(len(seq), 100) or 1
    if partition_size is None:
        partition_size = -(-len(seq) // npartitions) if seq else 1
    parts = [seq[i : i + partition_size] for i in range(0, len(seq), partition_size)] or [[]]
    return Bag(parts)


class _Client:
    @staticmethod
    def current(*a, **k):
        raise ValueError("No clients found (symbolic Dask model has no distributed client)")


class DaskShim:
    """stands in for the ``dask`` package"""

    def __init__(self):
        self.array = DA
        self.bag = types.SimpleNamespace(Bag=Bag, from_sequence=from_sequence, core=types.SimpleNamespace(Bag=Bag))
        self.delayed = delayed
        self.compute = compute
        self.optimize = optimize
        self.persist = persist
        self.distributed = types.SimpleNamespace(Client=_Client)
        self.base = types.SimpleNamespace(compute=compute)
        self.config = types.SimpleNamespace(set=lambda *a, **k: _NullCtx(), get=lambda *a, **k: None)

    def is_dask_collection(self, x):
        return isinstance(x, (DArr, Delayed, Bag))


class _NullCtx:
    def __enter__(self):
        return self

    def __exit__(self, *a):
        return False


DASK = DaskShim()
