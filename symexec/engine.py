"""Obligation engine: dual-backend scenarios, solver queries, replay, records.

A *scenario* is a function ``sc(B, **params) -> Outcome`` written once and executed
* on the symbolic backend (``SymB``): the package is the freshly loaded source running on
  the shim; inputs are z3 symbols; the outcome's ``eq``/``claims`` become solver queries;
* on the real backend (``RealB``): the real installed package (editable install of /repo)
  with real NumPy/Dask/h5py and float inputs - used for (a) translator validation of the
  shim on the very terms that are proved and (b) replay of solver counterexamples.
"""
import importlib
import json
import math
import os
import random
import subprocess
import sys
import tempfile
import time
import traceback
from fractions import Fraction

import numpy as _np
import z3

from . import axioms as AX
from . import core, daskmodel, h5model, loader, shim
from .core import SB, SInt, SV, Ctx, PathAbort, Unsupported, _bad, _z, badz, evalf, explore, model_env


class AssumptionFailed(Exception):
    pass


class Outcome:
    def __init__(self):
        self.eq = {}  # name -> (got, want)
        self.claims = {}  # name -> SB | bool
        self.finite = {}  # name -> array/scalar that must not be bad
        self.alts = {}  # name -> [(finding key, alternative want)]
        self.same_keys = set()
        self.lemmas = []
        self.extra_axioms = []  # z3 facts (sound instances) supplied by the harness
        self.info = {}

    def equal(self, name, got, want, alts=()):
        self.eq[name] = (got, want)
        if alts:
            self.alts[name] = list(alts)

    def same(self, name, got, ref):
        """got and ref come from two runs of the real code that must agree, NaN pattern included
        (finiteness itself is another obligation's business)"""
        self.eq[name] = (got, ref)
        self.same_keys.add(name)

    def claim(self, name, c, alts=()):
        self.claims[name] = c
        if alts:
            self.alts[name] = list(alts)

    def fin(self, name, a):
        self.finite[name] = a

    def lemma(self, name, c):
        """an auxiliary fact: proved first (as an obligation of its own); once proved it is
        available as an assumption to the scenario's other obligations"""
        self.lemmas.append((name, c))


# --------------------------------------------------------------------------------------
# backends


class SymB:
    sym = True

    def __init__(self, range_mode=False, linalg="closed"):
        loader.reset_env(range_mode=range_mode, linalg=linalg)
        self.np = loader.NPX
        self.da = daskmodel.DA
        self.dask = daskmodel.DASK
        self.inputs = {}

    def mod(self, name):
        return loader.mod(name)

    @property
    def pkg(self):
        return loader.pkg()

    def real(self, name, lo=None, hi=None, pos=False, nonneg=False, nonzero=False):
        v = core.real(name)
        self.inputs[name] = v
        self._dom(v, lo, hi, pos, nonneg, nonzero)
        return v

    def _dom(self, v, lo, hi, pos, nonneg, nonzero):
        c = core.ctx()
        if pos:
            c.assume(v.z > 0)
        if nonneg:
            c.assume(v.z >= 0)
        if nonzero:
            c.assume(v.z != 0)
        if lo is not None:
            c.assume(v.z >= core.rat(lo))
        if hi is not None:
            c.assume(v.z <= core.rat(hi))

    def arr(self, name, shape, lo=None, hi=None, pos=False, nonneg=False, nonzero=False):
        a = core.arr(name, shape)
        for idx in _np.ndindex(*a.shape):
            v = a[idx]
            self.inputs[str(v.z)] = v
            self._dom(v, lo, hi, pos, nonneg, nonzero)
        return a

    def int(self, name, lo, hi, hint=None):
        v = SInt(z3.Int(name), hint)
        core.ctx().assume(z3.And(v.z >= lo, v.z <= hi))
        self.inputs[name] = v
        return v

    def bool(self, name):
        b = SB(z3.Bool(name))
        self.inputs[name] = b
        return b

    def assume(self, cond):
        if isinstance(cond, SB):
            cond = cond.z
        if isinstance(cond, (bool, _np.bool_)):
            if not cond:
                raise PathAbort("assumption false")
            return
        core.ctx().assume(cond)

    def const(self, x):
        return x

    def darr(self, a, chunks):
        return daskmodel.DArr(a, chunks)

    def bag(self, parts):
        return daskmodel.Bag(parts)

    def executor(self, policy="fifo", isolated=False):
        daskmodel.set_executor(policy, isolated)

    def h5path(self, name):
        return "/sym/" + name

    def h5file(self, path, mode):
        return h5model.File(path, mode)

    def ln(self, x):
        return shim.s_log(x)

    def ex(self, x):
        return shim.s_exp(x)

    def sqrt(self, x):
        return shim.s_sqrt(x)

    def maximum(self, a, b):
        return shim.v_max(a, b)

    def where(self, c, a, b):
        return shim.v_ite(c, a, b)

    def lse(self, terms):
        return shim.lse(terms)

    def copy(self, a):
        return shim.NP.array(a)

    def rng_state(self, k):
        """put NumPy's global generator into an arbitrary state (named k)"""
        shim.NP.random.reset("G%s" % k)

    def inv(self, A):
        return shim.NP.LA.inv(shim._obj(A))

    def cholesky_lower(self, A):
        return shim.NP.LA.cholesky(shim._obj(A), lower=True)


class RealB:
    sym = False

    def __init__(self, env=None, seed=0, scheduler="synchronous"):
        self.env = dict(env or {})
        self.rng = random.Random(seed)
        import numpy

        self.np = numpy
        self.inputs = {}
        self.scheduler = scheduler
        self._tmp = None

    def mod(self, name):
        return importlib.import_module("bob.learn.em." + name)

    @property
    def pkg(self):
        return importlib.import_module("bob.learn.em")

    @property
    def da(self):
        import dask.array

        return dask.array

    @property
    def dask(self):
        import dask

        return dask

    def _val(self, name, lo, hi, pos, nonneg, nonzero):
        if name in self.env:
            v = float(self.env[name])
        else:
            a = -2.0 if lo is None else float(lo)
            b = 2.0 if hi is None else float(hi)
            if pos or nonneg:
                a = max(a, 0.05)
                b = max(b, a + 1.0) if hi is None else b
            v = self.rng.uniform(a, b)
            if nonzero and abs(v) < 0.05:
                v = 0.5
            v = round(v, 3)
            if pos and v <= 0:
                v = 0.1
            self.env[name] = v
        ok = True
        if pos and not v > 0:
            ok = False
        if nonneg and not v >= 0:
            ok = False
        if nonzero and v == 0:
            ok = False
        if lo is not None and v < lo:
            ok = False
        if hi is not None and v > hi:
            ok = False
        if not ok:
            raise AssumptionFailed("domain of %s" % name)
        self.inputs[name] = v
        return v

    def real(self, name, lo=None, hi=None, pos=False, nonneg=False, nonzero=False):
        return self._val(name, lo, hi, pos, nonneg, nonzero)

    def arr(self, name, shape, lo=None, hi=None, pos=False, nonneg=False, nonzero=False):
        if isinstance(shape, int):
            shape = (shape,)
        a = _np.empty(shape, dtype=float)
        for idx in _np.ndindex(*shape):
            a[idx] = self._val(name + "".join("_%d" % i for i in idx), lo, hi, pos, nonneg, nonzero)
        return a

    def int(self, name, lo, hi, hint=None):
        if name in self.env:
            v = int(self.env[name])
        else:
            v = hint if hint is not None else self.rng.randint(lo, hi)
            self.env[name] = v
        self.inputs[name] = v
        return v

    def bool(self, name):
        v = bool(self.env.get(name, self.rng.random() < 0.5))
        self.env[name] = v
        return v

    def assume(self, cond):
        if not bool(cond):
            raise AssumptionFailed()

    def const(self, x):
        return x

    def darr(self, a, chunks):
        import dask.array as da

        return da.from_array(_np.array(a), chunks=chunks)

    def bag(self, parts):
        import dask.bag

        # one from_sequence bag per partition, concatenated: exact partition layout
        bags = [dask.bag.from_sequence(list(p), npartitions=1) for p in parts if len(p)]
        return dask.bag.concat(bags)

    def executor(self, policy="fifo", isolated=False):
        """real Dask, synchronous scheduler.  isolated=True: every task's function, inputs and
        result take a cloudpickle round trip (what a distributed worker does to object identity)."""
        import dask

        dask.config.set(scheduler="synchronous")
        if isolated and not getattr(self, "_orig_delayed", None):
            import cloudpickle

            orig = dask.delayed
            self._orig_delayed = orig

            def iso(f):
                if not callable(f):
                    return f

                def run(*a, **k):
                    ff, aa, kk = cloudpickle.loads(cloudpickle.dumps((f, a, k)))
                    return cloudpickle.loads(cloudpickle.dumps(ff(*aa, **kk)))

                run.__name__ = getattr(f, "__name__", "task")
                return run

            def delayed(obj, *a, **k):
                return orig(iso(obj), *a, **k)

            dask.delayed = delayed

    def h5path(self, name):
        if self._tmp is None:
            self._tmp = tempfile.mkdtemp(prefix="verif_h5_")
        return os.path.join(self._tmp, name)

    def h5file(self, path, mode):
        import h5py

        return h5py.File(path, mode)

    def cleanup(self):
        if getattr(self, "_orig_delayed", None):
            import dask

            dask.delayed = self._orig_delayed
            self._orig_delayed = None
        if self._tmp:
            import shutil

            shutil.rmtree(self._tmp, ignore_errors=True)
            self._tmp = None

    def ln(self, x):
        return math.log(x) if x > 0 else float("nan")

    def ex(self, x):
        return math.exp(x)

    def sqrt(self, x):
        return math.sqrt(x) if x >= 0 else float("nan")

    def maximum(self, a, b):
        return _np.maximum(a, b)

    def where(self, c, a, b):
        return _np.where(c, a, b)

    def lse(self, terms):
        terms = [float(t) for t in terms]
        m = max(terms)
        return m + math.log(sum(math.exp(t - m) for t in terms))

    def copy(self, a):
        return _np.array(a)

    def rng_state(self, k):
        _np.random.seed(1000 + int(k))
        _np.random.normal(size=int(k) + 1)  # advance as some earlier training would

    def inv(self, A):
        return _np.linalg.inv(_np.array(A, dtype=float))

    def cholesky_lower(self, A):
        return _np.linalg.cholesky(_np.array(A, dtype=float))


# --------------------------------------------------------------------------------------
# helpers


def or_leaves(b):
    """atomic disjuncts of a (nested) disjunction"""
    out, stack, seen = [], [b], set()
    while stack:
        t = stack.pop()
        if t.get_id() in seen:
            continue
        seen.add(t.get_id())
        if z3.is_or(t):
            stack.extend(t.children())
        else:
            out.append(t)
    return out


def flat(a):
    if hasattr(a, "__sarr__") and not isinstance(a, _np.ndarray):
        a = a.__sarr__()
    if hasattr(a, "compute") and not isinstance(a, _np.ndarray):
        a = a.compute()
    if isinstance(a, (list, tuple)):
        out = []
        for x in a:
            out += flat(x)
        return out
    if isinstance(a, _np.ndarray):
        return list(a.flat)
    return [a]


def shape_of(a):
    if hasattr(a, "__sarr__") and not isinstance(a, _np.ndarray):
        a = a.__sarr__()
    if hasattr(a, "compute") and not isinstance(a, _np.ndarray):
        a = a.compute()
    if isinstance(a, (list, tuple)):
        sub = [shape_of(x) for x in a]
        if sub and all(s == sub[0] for s in sub) and (not sub[0] or sub[0][0] != "ragged"):
            return (len(a),) + tuple(sub[0])
        if not sub:
            return (0,)
        return ("ragged",) + tuple(sub)
    return tuple(_np.shape(a))


def _fl(v):
    if isinstance(v, (SV, SInt, SB)):
        raise TypeError
    if isinstance(v, (bool, _np.bool_)):
        return float(v)
    return float(v)


def num_differs(got, want, rtol=1e-6, atol=1e-8, nan_equal=False):
    """numeric comparison of real-backend results; NaN/inf in got counts as a difference
    (unless nan_equal: then NaN must match NaN)"""
    if shape_of(got) != shape_of(want):
        return True, "shape %r vs %r" % (shape_of(got), shape_of(want))
    g, w = [_fl(x) for x in flat(got)], [_fl(x) for x in flat(want)]
    worst = 0.0
    for a, b in zip(g, w):
        if nan_equal and (math.isnan(a) or math.isnan(b)):
            if math.isnan(a) != math.isnan(b):
                return True, "NaN pattern differs: %r vs %r" % (a, b)
            continue
        if math.isnan(a) or math.isinf(a):
            return True, "non-finite value %r (expected %r)" % (a, b)
        if math.isnan(b) or math.isinf(b):
            continue
        d = abs(a - b)
        if d > atol + rtol * max(abs(a), abs(b)):
            worst = max(worst, d)
    return (worst > 0), "max abs diff %.6g" % worst


def jsonable(x):
    if isinstance(x, dict):
        return {str(k): jsonable(v) for k, v in x.items()}
    if isinstance(x, (list, tuple)):
        return [jsonable(v) for v in x]
    if isinstance(x, _np.ndarray):
        return jsonable(x.tolist())
    if isinstance(x, (_np.floating, float)):
        x = float(x)
        return x if math.isfinite(x) else repr(x)
    if isinstance(x, (_np.integer,)):
        return int(x)
    if isinstance(x, (_np.bool_,)):
        return bool(x)
    if isinstance(x, Fraction):
        return float(x)
    if isinstance(x, (str, int, bool)) or x is None:
        return x
    return repr(x)


# --------------------------------------------------------------------------------------
# the prover


TIMEOUTS = {"quick": 20000, "thorough": 120000}


from .normal import abstract_nl  # noqa: E402


class Prover:
    def __init__(self, prop, job, tier="quick", seed=0):
        self.prop = prop
        self.job = job
        self.tier = tier
        self.seed = seed
        self.timeout = int(os.environ.get("VERIF_QUERY_TIMEOUT_MS", TIMEOUTS.get(tier, 20000)))
        self.records = []
        self.witness_tries = {}
        self.fails = 0
        self.unknowns = 0
        self.paths = 0
        self.queries = 0
        self.solver_time = 0.0
        self.axiom_counts = {}
        self.validated = 0
        self.functions = set()
        self.stubs = set()
        self.assumptions = set()

    # ---- low level -----------------------------------------------------------------
    def _check(self, assertions, timeout=None, retries=2):
        """one SMT query; an `unknown` is retried with permuted assertions and another seed
        (z3's nlsat is sensitive to assertion order, which varies with AST creation order)"""
        assertions = list(assertions)
        t = time.time()
        r = None
        if self.unknowns + self.fails > 3:
            retries = 0
        for attempt in range(retries + 1):
            s = z3.Solver()
            s.set("timeout", timeout or self.timeout)
            if attempt:
                s.set("random_seed", attempt)
                rnd = random.Random(attempt)
                assertions = list(assertions)
                rnd.shuffle(assertions)
            s.add(assertions)
            # watchdog: z3 occasionally ignores its own timeout inside nlsat preprocessing
            import threading

            wd = threading.Timer((timeout or self.timeout) / 1000.0 + 3.0, z3.main_ctx().interrupt)
            wd.daemon = True
            wd.start()
            try:
                r = s.check()
            except z3.Z3Exception:
                r = z3.unknown
            finally:
                wd.cancel()
            self.queries += 1
            if r != z3.unknown:
                break
        dt = time.time() - t
        self.solver_time += dt
        return str(r), s, dt

    def rec(self, name, verdict, **kw):
        r = dict(obligation="%s/%s/%s" % (self.prop, self.job, name), verdict=verdict)
        if verdict != "unsat" and getattr(self, "_cur", None):
            r["scenario"], r["params"], r["key"] = self._cur[0], self._cur[1], kw.pop("key", None)
        r.update(kw)
        if verdict == "sat":
            self.fails += 1
        self.records.append(r)
        return r

    # ---- scenario driver -----------------------------------------------------------
    def run(self, name, sc, params=None, range_mode=False, linalg="closed", expect_raise=None, max_paths=512, validate=2, must_reach=True):
        """Explore scenario symbolically; discharge every eq/claim/finite of every path.
        expect_raise: None -> any exception escaping the analysed code on a feasible path is a
        failed obligation ('no exception'); or an exception class the scenario is allowed to end in."""
        params = dict(params or {})
        t0 = time.time()
        self._cur = ("%s:%s" % (sc.__module__, sc.__name__), jsonable(params))

        def go():
            B = SymB(range_mode=range_mode, linalg=linalg)
            out = sc(B, **params)
            out._B = B
            out._lin_axioms = list(shim.NP.LA.axioms)
            return out

        try:
            paths = explore(go, max_paths=max_paths)
        except Unsupported as e:
            self.rec(name, "error", detail="unsupported: %s" % e, trace=traceback.format_exc(limit=6))
            return
        except core.ShapeMismatch as e:
            self.rec(name, "error", detail="shape mismatch in harness: %s" % (e,))
            return
        live = [p for p in paths if p.status != "abort"]
        self.paths += len(live)
        if not live and must_reach:
            self.rec(name, "vacuous", detail="no feasible path reaches the assertions")
            return
        n_inf = 0
        for pi, p in enumerate(live):
            pname = name if len(live) == 1 else "%s#p%d" % (name, pi)
            if p.status == "raise":
                self._raised(pname, p, sc, params, expect_raise)
                continue
            out = p.result
            if self._discharge(pname, p, out, sc, params) == "infeasible":
                n_inf += 1
        if live and n_inf == len(live) and must_reach:
            self.rec(name, "vacuous", detail="every explored path is infeasible")
        # translator validation on this scenario
        if validate and live:
            self._validate(name, sc, params, live, validate)
        return live

    def _axioms(self, terms, out):
        ax = AX.gen(terms, counts=self.axiom_counts)
        return ax + list(out.extra_axioms) + list(getattr(out, "_lin_axioms", []))

    def _raised(self, pname, p, sc, params, expect_raise):
        e = p.result
        if expect_raise is not None and isinstance(e, expect_raise):
            self.rec(pname, "unsat", kind="expected-raise", detail=type(e).__name__)
            return
        # need a model of the path to replay
        r, s, dt = self._check(p.pc)
        if r == "unsat":
            return
        env = model_env(s.model()) if r == "sat" else {}
        rp = self._replay(sc, params, env, None, "exception %s: %s" % (type(e).__name__, e))
        self.rec(pname + "/no-exception", "sat", kind="raise", exception="%s: %s" % (type(e).__name__, str(e)[:200]), model=jsonable(env), replay=rp, time=dt,
                 trace="".join(traceback.format_exception(type(e), e, e.__traceback__, limit=-4))[-1500:])

    def _discharge(self, pname, p, out, sc, params):
        pc = list(p.pc)
        goals = []
        for k, (got, want) in out.eq.items():
            goals.append(("eq", k, got, want))
        for k, c in out.claims.items():
            goals.append(("claim", k, c, None))
        for k, a in out.finite.items():
            goals.append(("finite", k, a, None))
        # reachability twin (vacuity guard), once per path
        all_terms = list(pc)
        r, s, dt = self._check(pc, timeout=min(self.timeout, 10000))
        if r == "unsat":
            # an infeasible path the explorer could not prune: nothing to prove on it
            self.infeasible_paths = getattr(self, "infeasible_paths", 0) + 1
            return "infeasible"
        reach = r
        for lname, lc in getattr(out, "lemmas", []):
            lz = lc.z if isinstance(lc, SB) else (z3.BoolVal(bool(lc)) if isinstance(lc, (bool, _np.bool_)) else lc)
            self._prove("%s/lemma:%s" % (pname, lname), pc, lz, out, sc, params, None, reach)
            if self.records and self.records[-1]["verdict"] == "unsat":
                out.extra_axioms.append(lz)
        for kind, k, a, b in goals:
            oname = "%s/%s" % (pname, k)
            try:
                if kind == "eq":
                    sa, sb = shape_of(a), shape_of(b)
                    if sa != sb:
                        self._fail_shape(oname, sa, sb, p, sc, params, k)
                        continue
                    fa, fb = flat(a), flat(b)
                    claims = []
                    seen_bad = set()
                    if k in getattr(out, "same_keys", ()):
                        for x, y in zip(fa, fb):
                            claims.append(z3.Or(badz(x), _z(x) == _z(y)))
                            if _bad(x) is not None or _bad(y) is not None:
                                claims.append(badz(x) == badz(y))
                        fa, fb = [], []
                    for x, y in zip(fa, fb):
                        claims.append(_z(x) == _z(y))
                        for v in (x, y):
                            if isinstance(v, SV) and v.bad is not None:
                                # conjunct-wise, de-duplicated: finiteness facts are shared by many elements
                                for t in or_leaves(v.bad):
                                    if t.get_id() not in seen_bad:
                                        seen_bad.add(t.get_id())
                                        claims.append(z3.Not(t))
                    if not claims:
                        claims = [z3.BoolVal(True)]
                elif kind == "claim":
                    if isinstance(a, (bool, _np.bool_)):
                        claims = [z3.BoolVal(bool(a))]
                    else:
                        claims = [a.z if isinstance(a, SB) else a]
                else:
                    bad, seen_b = [], set()
                    for x in flat(a):
                        if isinstance(x, SV) and x.bad is not None:
                            for t in or_leaves(x.bad):
                                if t.get_id() not in seen_b:
                                    seen_b.add(t.get_id())
                                    bad.append(t)
                    claims = [z3.Not(b) for b in bad] or [z3.BoolVal(True)]
            except Exception as e:
                self.rec(oname, "error", detail="building claim: %r" % (e,))
                continue
            self._prove_all(oname, pc, claims, out, sc, params, k, reach)

    def _prove_all(self, oname, pc, claims, out, sc, params, key, reach):
        """element-wise: many small queries instead of one big disjunction; one record"""
        n0 = len(self.records)
        tot, nax = 0.0, 0
        for ci, claim in enumerate(claims):
            self._prove(oname, pc, claim, out, sc, params, key, reach)
            r = self.records.pop()
            tot += r.get("time", 0.0)
            nax = max(nax, r.get("axioms", 0))
            if r["verdict"] != "unsat":
                r["time"] = round(tot, 3)
                r["element"] = ci
                self.records.append(r)
                return
        self.rec(oname, "unsat", time=round(tot, 3), axioms=nax, elements=len(claims), reach=reach)

    def _unused(self):
        if False:
            self._prove(oname, pc, claim, out, sc, params, k, reach)

    def _fail_shape(self, oname, sa, sb, p, sc, params, key):
        r, s, dt = self._check(p.pc)
        env = model_env(s.model()) if r == "sat" else {}
        rp = self._replay(sc, params, env, key, "shape %r, expected %r" % (sa, sb))
        self.rec(oname, "sat", kind="shape", detail="shape %r, expected %r" % (sa, sb), model=jsonable(env), replay=rp)

    def _prove(self, oname, pc, claim, out, sc, params, key, reach="sat"):
        claim_s = z3.simplify(claim)
        if z3.is_true(claim_s):
            self.rec(oname, "unsat", time=0.0, trivial=True)
            self.queries += 1
            return
        neg = z3.Not(claim)
        t0 = time.time()
        # 1st attempt: linear abstraction (decides syntactic/linear identities instantly)
        try:
            ab = abstract_nl([neg] + list(out.extra_axioms) + list(getattr(out, "_lin_axioms", [])), context=pc)
            r0, s0, dt0 = self._check(ab, timeout=min(self.timeout, 5000))
        except Exception:
            r0 = "unknown"
        if r0 == "unsat":
            self._cross_check(ab, oname)
            self.rec(oname, "unsat", time=round(time.time() - t0, 3), axioms=0, abstracted=True, reach=reach)
            return
        if r0 == "sat":
            # the abstraction's model is a candidate input: the real code is the judge
            try:
                env0 = model_env(s0.model())
                rp0 = self._replay(sc, params, env0, key, None)
            except Exception:
                rp0 = None
            if rp0 and rp0.get("reproduced"):
                finding = self._classify(oname, pc, out, key)
                self.rec(oname, "sat", time=round(time.time() - t0, 3), model=jsonable(env0), replay=rp0, refinements=0, finding=finding, via="abstraction-model")
                return
            # the abstraction could not prove the claim and its model is not a real counterexample:
            # before the expensive non-linear query, look for a witness among a few concrete inputs
            # (a reproducing replay on the real code is a violation however the input was found;
            #  "holds" is still only ever concluded from an unsat answer)
            if self.witness_tries.get(oname.rsplit("/", 1)[0], 0) < 6:
                for k in range(3):
                    self.witness_tries[oname.rsplit("/", 1)[0]] = self.witness_tries.get(oname.rsplit("/", 1)[0], 0) + 1
                    try:
                        rpk = self._replay(sc, params, {}, key, None, seed=101 + k)
                    except Exception:
                        rpk = None
                    if rpk and rpk.get("reproduced"):
                        rpk["seed"] = 101 + k
                        finding = self._classify(oname, pc, out, key)
                        self.rec(oname, "sat", time=round(time.time() - t0, 3), model=rpk.get("inputs"), replay=rpk, refinements=0, finding=finding, via="concrete-witness-after-abstract-sat")
                        return
        if self.unknowns + self.fails > 3:
            # this job is already inconclusive/violating: do not spend the full budget on every query
            self.timeout = min(self.timeout, 3000)
        ax = self._axioms(pc + [neg], out)
        r, s, dt = self._check(pc + ax + [neg])
        rounds = 0
        rp = None
        env = None
        while r == "sat" and rounds < 8:
            m = s.model()
            env = model_env(m)
            rp = self._replay(sc, params, env, key, None)
            if rp.get("reproduced"):
                break
            # spurious under the true transcendental functions?  refine and retry
            def mev(t, m=m):
                try:
                    return float(core.frac_of(m.eval(t, model_completion=True)))
                except Exception:
                    return None

            lem = AX.linearise(mev, pc + ax + [neg])
            if not lem:
                break
            ax += lem
            self.axiom_counts["linearisation"] = self.axiom_counts.get("linearisation", 0) + len(lem)
            rounds += 1
            r, s, dt2 = self._check(pc + ax + [neg])
        total = time.time() - t0
        if r == "unsat":
            self.rec(oname, "unsat", time=round(total, 3), axioms=len(ax), refinements=rounds, reach=reach)
            return
        if r == "unknown":
            self.unknowns += 1
            self.rec(oname, "unknown", time=round(total, 3), axioms=len(ax), refinements=rounds)
            return
        # sat
        finding = None
        if rp and rp.get("reproduced"):
            finding = self._classify(oname, pc, out, key)
        self.rec(oname, "sat", time=round(total, 3), model=jsonable(env), replay=rp, refinements=rounds, finding=finding)

    def _classify(self, oname, pc, out, key):
        """does the real-code term equal a characterised (known) defective function?"""
        for fk, alt in out.alts.get(key, []):
            try:
                if key in out.finite:
                    # characterised non-finiteness: same NaN pattern, same finite values elsewhere
                    got = out.finite[key]
                    if shape_of(got) != shape_of(alt):
                        continue
                    ok = True
                    for x, y in zip(flat(got), flat(alt)):
                        claim = z3.And(badz(x) == badz(y), z3.Or(badz(x), _z(x) == _z(y)))
                        ax = self._axioms(pc + [claim], out)
                        r, s, dt = self._check(pc + ax + [z3.Not(claim)])
                        if r != "unsat":
                            ok = False
                            break
                    if ok:
                        return fk
                    continue
                if key in out.eq:
                    got = out.eq[key][0]
                    if shape_of(got) != shape_of(alt):
                        continue
                    ok = True
                    for x, y in zip(flat(got), flat(alt)):
                        claim = z3.And(_z(x) == _z(y), badz(x) == badz(y))
                        ax = self._axioms(pc + [claim], out)
                        r, s, dt = self._check(pc + ax + [z3.Not(claim)])
                        if r != "unsat":
                            ok = False
                            break
                    if ok:
                        return fk
                    continue
                else:
                    claim = alt.z if isinstance(alt, SB) else alt
                    if isinstance(claim, (bool, _np.bool_)):
                        claim = z3.BoolVal(bool(claim))
                ax = self._axioms(pc + [claim], out)
                r, s, dt = self._check(pc + ax + [z3.Not(claim)])
                if r == "unsat":
                    return fk
            except Exception:
                continue
        return None

    def _cross_check(self, assertions, oname, every=40):
        """second solver: a sample of the (linear) abstracted queries that z3 found unsat is dumped
        as SMT-LIB2 and decided again by the cvc5 binary; any disagreement is a harness error"""
        self.cc_seen = getattr(self, "cc_seen", 0) + 1
        if self.cc_seen > 2 and self.cc_seen % every:
            return
        import shutil

        exe = shutil.which("cvc5")
        if not exe:
            return
        try:
            s = z3.Solver()
            s.add(assertions)
            txt = "(set-logic ALL)\n" + s.to_smt2()
            with tempfile.NamedTemporaryFile("w", suffix=".smt2", delete=False) as fh:
                fh.write(txt)
                path = fh.name
            try:
                out = subprocess.run([exe, "--lang=smt2", "--tlimit=20000", path], capture_output=True, text=True, timeout=30).stdout
            finally:
                os.unlink(path)
        except Exception:
            return
        ans = out.strip().splitlines()[0] if out.strip() else ""
        if "(error" in out:
            return  # the other solver could not parse the dump: no information
        if ans == "unsat":
            self.cross_checked = getattr(self, "cross_checked", 0) + 1
        elif ans == "sat":
            self.rec(oname + "/cross-check", "error", detail="cvc5 answers sat where z3 answered unsat on the same abstracted query")

    # ---- real-code replay -----------------------------------------------------------
    def _replay(self, sc, params, env, key, note, seed=0):
        """run the scenario on the real package with the model's inputs"""
        B = RealB(env, seed=seed)
        res = dict(reproduced=False)
        try:
            out = sc(B, **params)
        except AssumptionFailed:
            res["detail"] = "model violates a precondition numerically (rounding)"
            return res
        except Exception as e:
            res.update(reproduced=True, detail="real code raised %s: %s" % (type(e).__name__, str(e)[:300]), inputs=jsonable(B.inputs))
            return res
        finally:
            B.cleanup()
        res["inputs"] = jsonable(B.inputs)
        if note and note.startswith("exception"):
            res["detail"] = "symbolic run raised (%s) but the real code did not" % note
            return res
        keys = [key] if key is not None else list(out.eq) + list(out.claims) + list(out.finite)
        for k in keys:
            if k in out.eq:
                got, want = out.eq[k]
                try:
                    d, why = num_differs(got, want, nan_equal=k in getattr(out, "same_keys", ()))
                except TypeError as e:
                    d, why = True, "non-numeric result: %r" % (e,)
                if d:
                    res.update(reproduced=True, key=k, detail=why, observed=jsonable(got), expected=jsonable(want))
                    return res
            elif k in out.claims:
                if not bool(out.claims[k]):
                    res.update(reproduced=True, key=k, detail="claim false on the real code", info=jsonable(out.info))
                    return res
            elif k in out.finite:
                vals = [_fl(x) for x in flat(out.finite[k])]
                if any(math.isnan(v) or math.isinf(v) for v in vals):
                    res.update(reproduced=True, key=k, detail="non-finite value in real result", observed=jsonable(vals))
                    return res
        res["detail"] = "real code agrees with the oracle on the model's inputs"
        return res

    # ---- concrete boundary probes (witness search only) -------------------------------
    def probe_real(self, name, sc, params_list, tries=2):
        """Run a scenario on the real package only, at sizes the symbolic bound cannot reach
        (derived from integer constants found in the source).  A difference from the oracle is a
        replayed violation; agreement proves nothing and is recorded as such."""
        self._cur = ("%s:%s" % (sc.__module__, sc.__name__), None)
        n = 0
        for params in params_list:
            self._cur = (self._cur[0], jsonable(params))
            for k in range(tries):
                rp = self._replay(sc, params, {}, None, None, seed=7 + k)
                n += 1
                if rp.get("reproduced"):
                    rp.pop("inputs", None)
                    rp["seed"] = 7 + k  # the inputs are regenerated from this seed on replay
                    self.rec("%s/%s" % (name, "-".join("%s%s" % kv for kv in sorted(params.items()) if isinstance(kv[1], int))), "sat", replay=rp, via="concrete-boundary-probe", model=None)
                    return
        self.probes = getattr(self, "probes", 0) + n

    # ---- translator validation ---------------------------------------------------
    def _validate(self, name, sc, params, live, n):
        """random concrete inputs: evaluate the *symbolic terms* and compare with the real code"""
        done = 0
        for k in range(n * 4):
            if done >= n:
                break
            B = RealB({}, seed=hash((self.seed, name, k)) & 0xFFFF)
            try:
                out = sc(B, **params)
            except AssumptionFailed:
                continue
            except Exception as e:
                # the real code may legitimately raise where a symbolic path raised as well
                out = e
            finally:
                B.cleanup()
            env = dict(B.env)
            # find the symbolic path taken by this input
            match = None
            for p in live:
                cache = {}
                try:
                    if all(evalf(c, env, cache) is True for c in p.pc):
                        match = p
                        break
                except Exception:
                    continue
            if match is None:
                continue
            if not isinstance(out, Exception) and match.status == "ok":
                # the real run is itself a test of the property on this input: a failed obligation that
                # the symbolic route has not already reported on this path is a counterexample on the
                # real code (however it was found)
                bad = self._real_failure(out)
                if bad is not None:
                    k_, why = bad
                    pname = name if len(live) == 1 else "%s#p%d" % (name, live.index(match))
                    tag = "/%s/%s" % (pname, k_)
                    if not any(r["obligation"].endswith(tag) and r["verdict"] == "sat" for r in self.records):
                        self.rec("%s/%s" % (pname, k_), "sat", replay=dict(reproduced=True, key=k_, detail=why, seed=hash((self.seed, name, k)) & 0xFFFF), model=jsonable(env), via="real-run-during-validation")
                        return
                    done += 1
                    continue
            if isinstance(out, Exception) or match.status == "raise":
                if isinstance(out, Exception) != (match.status == "raise"):
                    self.rec(name + "/validate", "error", detail="shim and real code disagree on raising: real=%r shim=%s" % (out, match.status), env=jsonable(env))
                    return
                done += 1
                continue
            sym = match.result
            cache = {}
            for kk, (got, want) in out.eq.items():
                if kk not in sym.eq:
                    continue
                sgot = sym.eq[kk][0]
                if shape_of(sgot) != shape_of(got):
                    self.rec(name + "/validate", "error", detail="shim/real shape mismatch for %s: %r vs %r" % (kk, shape_of(sgot), shape_of(got)), env=jsonable(env))
                    return
                for a, b in zip(flat(sgot), flat(got)):
                    if isinstance(a, SV):
                        isbad = evalf(badz(a), env, cache)
                        va = float("nan") if isbad is True else evalf(a.z, env, cache)
                    elif isinstance(a, SInt):
                        va = evalf(a.z, env, cache)
                    else:
                        va = float(a)
                    vb = _fl(b)
                    if (math.isnan(va) or math.isinf(va)) and (math.isnan(vb) or math.isinf(vb)):
                        continue
                    if math.isnan(va) != math.isnan(vb) or abs(va - vb) > 1e-7 * max(1.0, abs(va), abs(vb)):
                        self.rec(name + "/validate", "error", detail="translator validation failed for %s: shim %r real %r" % (kk, va, vb), env=jsonable(env))
                        return
            done += 1
        self.validated += done

    def _real_failure(self, out):
        """first failed obligation of a real-backend outcome, or None"""
        for k, (got, want) in out.eq.items():
            try:
                # looser than the replay tolerance: these inputs are random, not chosen by the solver
                d, why = num_differs(got, want, rtol=1e-5, atol=1e-7, nan_equal=k in getattr(out, "same_keys", ()))
            except TypeError:
                continue
            if d:
                return k, why
        for k, c in out.claims.items():
            try:
                if not bool(c):
                    return k, "claim false on the real code"
            except Exception:
                continue
        for k, a in out.finite.items():
            try:
                vals = [_fl(x) for x in flat(a)]
            except TypeError:
                continue
            if any(math.isnan(v) or math.isinf(v) for v in vals):
                return k, "non-finite value in real result"
        return None

    # ---- summary ----------------------------------------------------------------
    def summary(self):
        return dict(
            records=self.records,
            paths=self.paths,
            queries=self.queries,
            solver_time=self.solver_time,
            axiom_counts=self.axiom_counts,
            validated=self.validated,
            functions=sorted(self.functions),
            stubs=sorted(self.stubs),
            assumptions=sorted(self.assumptions),
            cross_checked=getattr(self, "cross_checked", 0),
            probes=getattr(self, "probes", 0),
            hashes=dict(loader.HASHES),
        )
