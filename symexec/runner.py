"""Check driver: runs a property's jobs in parallel, aggregates verdicts, writes evidence,
prints VIOLATION / KNOWN-FINDING lines, sets the exit code.

exit 0  every obligation discharged (unsat), possibly with KNOWN-FINDING lines
exit 1  a counterexample that replays on the real code and is not a listed known finding
exit 2  harness error (unsupported construct, vacuous harness, shim/real disagreement)
exit 3  inconclusive (solver unknown/timeout, or a model that does not reproduce)
"""
import argparse
import concurrent.futures as cf
import importlib
import json
import multiprocessing as mp
import os
import random
import sys
import time
import traceback

ROOT = os.path.dirname(os.path.dirname(os.path.abspath(__file__)))
EVID = os.environ.get("VERIF_EVIDENCE_DIR") or os.path.join(ROOT, "evidence")
KNOWN = os.path.join(ROOT, "known_findings.json")


def _linecov_start():
    """diagnostic only (VERIF_LINECOV=<dir>): which source lines of the package do the harnesses reach,
    symbolically ('sym') and on the real backend ('real')?  Used to audit the harnesses for blind spots
    (tools/linecov_report.py); never part of a verdict."""
    d = os.environ.get("VERIF_LINECOV")
    if not d:
        return None
    import sys

    hit = set()

    def local(frame, event, arg):
        if event == "line":
            hit.add((os.path.basename(frame.f_code.co_filename), frame.f_lineno, "sym" if frame.f_globals.get("__name__", "").startswith("symbob") else "real"))
        return local

    def tracer(frame, event, arg):
        fn = frame.f_code.co_filename
        if "/bob/learn/em/" in fn:
            return local
        return None

    sys.settrace(tracer)
    return hit


def _linecov_stop(hit, prop, jobname):
    if hit is None:
        return
    import sys
    import hashlib

    sys.settrace(None)
    d = os.environ["VERIF_LINECOV"]
    os.makedirs(d, exist_ok=True)
    with open(os.path.join(d, "%s-%s.json" % (prop, hashlib.md5(jobname.encode()).hexdigest()[:10])), "w") as fh:
        json.dump(sorted(hit), fh)


def _job(prop, modname, jobname, fname, kwargs, tier, seed):
    import warnings

    warnings.filterwarnings("ignore")
    import logging

    logging.disable(logging.CRITICAL)
    from symexec.engine import Prover

    t0 = time.time()
    P = Prover(prop, jobname, tier, seed)
    cov = _linecov_start()
    try:
        m = importlib.import_module(modname)
        getattr(m, fname)(P, **kwargs)
    except BaseException as e:  # harness bug or unsupported construct
        P.rec("job", "error", detail="%s: %s" % (type(e).__name__, e), trace=traceback.format_exc(limit=8))
    _linecov_stop(cov, prop, jobname)
    s = P.summary()
    s["job"] = jobname
    s["wall"] = time.time() - t0
    s["scenario_module"] = modname
    return s


def load_known():
    if not os.path.exists(KNOWN):
        return []
    with open(KNOWN) as fh:
        return json.load(fh)


def main(argv=None):
    ap = argparse.ArgumentParser()
    ap.add_argument("prop")
    ap.add_argument("--tier", default=os.environ.get("VERIF_TIER", "quick"), choices=["quick", "thorough"])
    ap.add_argument("--replay")
    ap.add_argument("--jobs", type=int, default=int(os.environ.get("VERIF_JOBS", "16")))
    ap.add_argument("--only", default=None, help="substring filter on job names (debugging)")
    ap.add_argument("-v", action="store_true")
    a = ap.parse_args(argv)
    prop = a.prop.upper()
    seed = int(os.environ.get("VERIF_SEED", "0"))
    modname = "props.%s" % prop.lower()
    sys.path.insert(0, ROOT)
    m = importlib.import_module(modname)
    if a.replay:
        return replay_file(m, a.replay)
    t0 = time.time()
    jobs = m.jobs(a.tier)
    if a.only:
        jobs = [j for j in jobs if a.only in j[0]]
    if not jobs:
        print("%s: no job matches --only %r (harness error)" % (a.prop, a.only))
        return 2
    rnd = random.Random(seed)
    rnd.shuffle(jobs)
    results = []
    # preload heavy imports once; forked workers inherit them
    from symexec import loader

    loader.pkg()
    try:
        import bob.learn.em  # noqa: F401  (real package, for replay / validation)
    except Exception as e:  # pragma: no cover
        print("HARNESS-ERROR cannot import the real package: %r" % (e,))
        return 2
    if a.jobs <= 1 or len(jobs) == 1:
        for jn, fn, kw in jobs:
            results.append(_job(prop, modname, jn, fn, kw, a.tier, seed))
    else:
        ctx = mp.get_context("fork")
        deadline = float(os.environ.get("VERIF_DEADLINE_S", "1500" if a.tier == "quick" else "3300"))
        ex = cf.ProcessPoolExecutor(max_workers=min(a.jobs, len(jobs)), mp_context=ctx)
        futs = {ex.submit(_job, prop, modname, jn, fn, kw, a.tier, seed): jn for jn, fn, kw in jobs}
        empty = dict(paths=0, queries=0, solver_time=0, axiom_counts={}, validated=0, functions=[], stubs=[], assumptions=[], hashes={}, wall=0)
        try:
            for f in cf.as_completed(futs, timeout=deadline):
                try:
                    results.append(f.result())
                except BaseException as e:
                    results.append(dict(empty, job=futs[f], records=[dict(obligation="%s/%s/job" % (prop, futs[f]), verdict="error", detail="worker died: %r" % (e,))]))
        except cf.TimeoutError:
            # a job that does not finish (e.g. the analysed code loops forever) is inconclusive
            for f, jn in futs.items():
                if not f.done():
                    results.append(dict(empty, job=jn, records=[dict(obligation="%s/%s/job" % (prop, jn), verdict="unknown", detail="job did not finish within %.0f s (non-termination of the analysed code or of the solver)" % deadline)]))
            for pr in list(getattr(ex, "_processes", {}).values()):
                try:
                    pr.kill()
                except Exception:
                    pass
        ex.shutdown(wait=False, cancel_futures=True)
    results.sort(key=lambda r: r["job"])
    wall = time.time() - t0
    return finish(m, prop, a.tier, seed, results, wall, a.v)


def finish(m, prop, tier, seed, results, wall, verbose=False):
    known = [k for k in load_known() if k.get("property") == prop]
    open_keys = {k["key"]: k for k in known if k.get("status") == "open"}
    recs = [r for res in results for r in res["records"]]
    n_unsat = sum(1 for r in recs if r["verdict"] == "unsat")
    viol, knownhits, incon, errs = [], {}, [], []
    os.makedirs(os.path.join(EVID, "replays"), exist_ok=True)
    for fn in os.listdir(os.path.join(EVID, "replays")):
        if fn.startswith(prop + "-"):
            os.remove(os.path.join(EVID, "replays", fn))
    for res in results:
        for r in res["records"]:
            v = r["verdict"]
            if v == "unsat":
                continue
            if v in ("error", "vacuous"):
                errs.append(r)
            elif v == "unknown":
                incon.append(r)
            elif v == "sat":
                rp = r.get("replay") or {}
                if not rp.get("reproduced"):
                    incon.append(r)
                    continue
                fk = r.get("finding")
                if fk and fk in open_keys:
                    knownhits.setdefault(fk, []).append(r)
                else:
                    viol.append(r)
    for i, r in enumerate(viol):
        path = os.path.join(EVID, "replays", "%s-%d.json" % (prop, i))
        with open(path, "w") as fh:
            json.dump(dict(property=prop, obligation=r["obligation"], scenario=r.get("scenario"), params=r.get("params"), model=r.get("model"), replay=r.get("replay"), detail=r.get("detail"), exception=r.get("exception")), fh, indent=1)
        r["replay_file"] = path
    for fk, rs in sorted(knownhits.items()):
        print("KNOWN-FINDING: property=%s %s -- %s (%d obligations, e.g. %s)" % (prop, fk, open_keys[fk].get("what", ""), len(rs), rs[0]["obligation"]))
    for r in viol:
        print("VIOLATION property=%s replay=%s" % (prop, r["replay_file"]))
        print("  obligation %s: %s" % (r["obligation"], (r.get("replay") or {}).get("detail") or r.get("detail")))
    for r in incon:
        print("INCONCLUSIVE %s: %s %s" % (r["obligation"], r["verdict"], (r.get("replay") or {}).get("detail", "")))
    for r in errs:
        print("HARNESS-ERROR %s: %s %s" % (r["obligation"], r["verdict"], r.get("detail", "")))
        if verbose and r.get("trace"):
            print(r["trace"])
    # evidence ----------------------------------------------------------------------
    axc = {}
    for res in results:
        for k, v in res["axiom_counts"].items():
            axc[k] = axc.get(k, 0) + v
    hashes = {}
    for res in results:
        hashes.update(res.get("hashes", {}))
    samples = []
    for r in recs[:3] + [x for x in recs if x["verdict"] != "unsat"][:5]:
        samples.append({k: r[k] for k in ("obligation", "verdict", "time", "axioms", "model", "finding", "detail", "kind") if k in r})
    slow = sorted([r for r in recs if "time" in r], key=lambda r: -r["time"])[:3]
    for r in slow:
        samples.append({k: r[k] for k in ("obligation", "verdict", "time", "axioms") if k in r})
    paths = sum(res["paths"] for res in results)
    queries = sum(res["queries"] for res in results)
    ev = dict(
        property_id=prop,
        tier=tier,
        seed=seed,
        level="model_checking",
        coverage=dict(
            states=max(paths, 1),
            transitions=max(queries, 1),
            traces_validated_against_impl=sum(res["validated"] for res in results),
            samples=samples,
            obligations=len(recs),
            discharged=n_unsat,
            known_finding_obligations=sum(len(v) for v in knownhits.values()),
            known_findings=sorted(knownhits),
            inconclusive=len(incon),
            harness_errors=len(errs),
            jobs=len(results),
            functions_encoded=getattr(m, "FUNCTIONS", []),
            source_sha256=hashes,
            bounds=m.bounds(tier) if hasattr(m, "bounds") else {},
            axiom_instances=axc,
            stubs=getattr(m, "STUBS", []),
            solver="z3 %s (python API), per-query timeout %s ms" % (_z3v(), os.environ.get("VERIF_QUERY_TIMEOUT_MS", "20000" if tier == "quick" else "120000")),
            solver_time_s=round(sum(res["solver_time"] for res in results), 3),
            queries_confirmed_by_second_solver_cvc5=sum(res.get("cross_checked", 0) for res in results),
            concrete_boundary_probes_on_real_code=sum(res.get("probes", 0) for res in results),
            exhaustive_over=getattr(m, "EXHAUSTIVE", []),
            outside_claim=getattr(m, "OUTSIDE", []),
            explanation="states = feasible symbolic paths of the real code explored; transitions = SMT queries discharged; "
            "every obligation is (precondition & path & axiom instances & not claim) decided unsat by z3 over the reals",
            exhaustive=False,
        ),
        assumptions=getattr(m, "ASSUMPTIONS", []),
        wall_s=round(wall, 2),
        violations=len(viol),
    )
    os.makedirs(EVID, exist_ok=True)
    with open(os.path.join(EVID, "%s.json" % prop), "w") as fh:
        json.dump(ev, fh, indent=1)
    print("%s %s: %d obligations, %d discharged, %d known-finding, %d violations, %d inconclusive, %d errors; %d paths, %d queries, %.1fs wall" % (prop, tier, len(recs), n_unsat, ev["coverage"]["known_finding_obligations"], len(viol), len(incon), len(errs), paths, queries, wall))
    if viol:
        return 1
    if errs:
        return 2
    if incon:
        return 3
    return 0


def _z3v():
    import z3

    return z3.get_version_string()


def _tuplify(x):
    if isinstance(x, list):
        return tuple(_tuplify(v) for v in x)
    if isinstance(x, dict):
        return {(int(k) if isinstance(k, str) and k.lstrip("-").isdigit() else k): _tuplify(v) for k, v in x.items()}
    return x


def replay_file(m, path):
    """re-run a stored counterexample against the real package (current /repo working tree)"""
    with open(path) as fh:
        d = json.load(fh)
    from symexec.engine import Prover

    modname, fname = d["scenario"].split(":")
    sc = getattr(importlib.import_module(modname), fname)
    params = {k: _tuplify(v) for k, v in (d.get("params") or {}).items()}
    env = (d.get("replay") or {}).get("inputs") or d.get("model") or {}
    P = Prover(d["property"], "replay", "quick", 0)
    key = (d.get("replay") or {}).get("key")
    rp = P._replay(sc, params, env, key, None, seed=(d.get("replay") or {}).get("seed", 0))
    print(json.dumps(dict(obligation=d["obligation"], scenario=d["scenario"], params=d.get("params"), result=rp), indent=1)[:6000])
    if rp.get("reproduced"):
        print("REPRODUCED on the real code: %s" % rp.get("detail"))
        return 1
    print("not reproduced on the current tree: %s" % rp.get("detail"))
    return 0
