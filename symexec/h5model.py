"""In-memory model of h5py.File with h5py-3 semantics, able to hold symbolic values.

Contract (validated against the real h5py in translator validation):
* ``f[k] = v`` copies arrays; a key can be written once (OSError otherwise); ``None`` -> TypeError
* ``f[k][()]``: float -> float64 scalar, int -> int64, bool -> bool_, ``str`` -> **bytes**,
  arrays -> a new array; ``f[k][...]`` the same but 0-d array for scalars
* ``f.attrs`` strings come back as ``str``
* a Dataset never compares equal to a str
* missing key -> KeyError
"""
import numpy as _np

from .core import SB, SInt, SV, Unsupported
from .shim import SArr, _obj

STORE = {}  # path -> root group contents


def reset():
    STORE.clear()


class Dataset:
    def __init__(self, value):
        self._v = value

    def _get(self, scalar_as_0d):
        v = self._v
        if isinstance(v, _np.ndarray):
            r = v.copy()
            return r.view(SArr) if r.dtype == object else r
        if isinstance(v, str):
            return v.encode()
        if isinstance(v, (SV, SInt, SB)):
            if scalar_as_0d:
                return _obj(v)
            return v
        if isinstance(v, (bool, _np.bool_)):
            r = _np.bool_(v)
        elif isinstance(v, (int, _np.integer)):
            r = _np.int64(v)
        elif isinstance(v, (float, _np.floating)):
            r = _np.float64(v)
        else:
            raise Unsupported("h5 value %r" % type(v))
        return _np.asarray(r) if scalar_as_0d else r

    def __getitem__(self, k):
        if k == ():
            return self._get(False)
        if k is Ellipsis:
            return self._get(True)
        return self._get(True)[k]

    def __array__(self, dtype=None, copy=None):
        return _np.asarray(self._get(True), dtype=dtype)

    def __sarr__(self):
        return _obj(self._get(True))

    @property
    def shape(self):
        return _np.shape(self._v) if not isinstance(self._v, str) else ()

    def __eq__(self, o):
        return False if not isinstance(o, Dataset) else self is o

    __hash__ = object.__hash__


def _store_value(v):
    if v is None:
        raise TypeError("One of data, shape or dtype must be specified")
    if hasattr(v, "__sarr__") and not isinstance(v, _np.ndarray):
        v = v.__sarr__()
    if isinstance(v, _np.ndarray):
        if v.dtype == object:
            for x in v.flat:
                if x is None:
                    raise TypeError("Object dtype dtype('O') has no native HDF5 equivalent")
            return v.copy()
        return _np.array(v)
    if isinstance(v, (list, tuple)):
        return _store_value(_np.array(v, dtype=object) if any(isinstance(x, (SV, SInt)) for x in v) else _np.array(v))
    if isinstance(v, (str, bytes, bool, int, float, _np.generic, SV, SInt, SB)):
        if isinstance(v, bytes):
            return v.decode()
        return v
    raise TypeError("No conversion path for dtype of %r" % type(v))


class Group:
    def __init__(self, writable=True):
        self._items = {}
        self.attrs = {}
        self._w = writable

    def __setitem__(self, k, v):
        if not self._w:
            raise OSError("Unable to create link (file is read-only)")
        if k in self._items:
            raise OSError("Unable to create link (name already exists)")
        self._items[k] = Dataset(_store_value(v))

    def __getitem__(self, k):
        if k not in self._items:
            raise KeyError("Unable to synchronously open object (object '%s' doesn't exist)" % k)
        return self._items[k]

    def __contains__(self, k):
        return k in self._items

    def keys(self):
        return self._items.keys()

    def create_group(self, k):
        if k in self._items:
            raise ValueError("Unable to create group (name already exists)")
        g = Group(self._w)
        self._items[k] = g
        return g

    def create_dataset(self, k, data=None, **kw):
        self[k] = data
        return self._items[k]

    def require_group(self, k):
        return self._items[k] if k in self._items else self.create_group(k)


class _Attrs(dict):
    def __getitem__(self, k):
        if k not in self:
            raise KeyError("Unable to synchronously open attribute (can't locate attribute: '%s')" % k)
        return dict.__getitem__(self, k)


class File(Group):
    def __init__(self, name, mode="r", **kw):
        if mode in ("w", "w-", "x"):
            Group.__init__(self, True)
            self.attrs = _Attrs()
            STORE[name] = self
        elif mode in ("r", "r+", "a"):
            if name not in STORE:
                if mode == "a":
                    Group.__init__(self, True)
                    self.attrs = _Attrs()
                    STORE[name] = self
                    return
                raise FileNotFoundError("Unable to synchronously open file (unable to open file: name = '%s')" % name)
            src = STORE[name]
            self._items = src._items
            self.attrs = src.attrs
            self._w = mode != "r"
            _set_w(self, self._w)
        else:
            raise ValueError("Invalid mode")
        self.filename = name
        self.mode = mode

    def close(self):
        pass

    def flush(self):
        pass

    def __enter__(self):
        return self

    def __exit__(self, *a):
        return False


def _set_w(g, w):
    g._w = w
    for v in g._items.values():
        if isinstance(v, Group):
            _set_w(v, w)


class H5Shim:
    File = File
    Group = Group
    Dataset = Dataset


H5 = H5Shim()
