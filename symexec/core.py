"""Symbolic scalars over z3 reals, path exploration, numeric re-evaluation.

Scalars are mathematical reals (z3 ``Real``) plus a *bad* flag that models NaN/inf
arising from division by zero, log of a non-positive number and sqrt of a
negative number.  ``bad`` is ``None`` (definitely finite) or a z3 Bool term.
"""
import itertools
import math
from fractions import Fraction

import numpy as _np
import z3


class PathAbort(BaseException):
    """Current path is outside the claim (assumption violated) or infeasible."""


class Unsupported(Exception):
    """The code under analysis used a construct the shim does not model."""


RS = z3.RealSort()
LN = z3.Function("ln", RS, RS)
EX = z3.Function("ex", RS, RS)
SQ = z3.Function("sqrt", RS, RS)

_TRUE = z3.BoolVal(True)
_FALSE = z3.BoolVal(False)


def rat(v):
    """exact z3 numeral for a python/numpy number"""
    if isinstance(v, (bool, _np.bool_)):
        return z3.RealVal(int(v))
    if isinstance(v, (int, _np.integer)):
        return z3.RealVal(int(v))
    if isinstance(v, Fraction):
        return z3.RealVal(f"{v.numerator}/{v.denominator}")
    if isinstance(v, (float, _np.floating)):
        v = float(v)
        if math.isnan(v) or math.isinf(v):
            raise Unsupported(f"non-finite constant {v!r} in symbolic arithmetic")
        f = Fraction(v)
        return z3.RealVal(f"{f.numerator}/{f.denominator}")
    raise TypeError(type(v))


def _z(v):
    if isinstance(v, SV):
        return v.z
    if isinstance(v, SInt):
        return z3.ToReal(v.z)
    return rat(v)


def _bad(v):
    return v.bad if isinstance(v, SV) else None


def bor(*bs):
    bs = [b for b in bs if b is not None]
    if not bs:
        return None
    if len(bs) == 1:
        return bs[0]
    return z3.Or(*bs)


def badz(v):
    """bad flag as a z3 term"""
    b = _bad(v)
    return _FALSE if b is None else b


def is_num(o):
    return isinstance(o, (int, float, Fraction, _np.integer, _np.floating)) and not isinstance(
        o, (bool, _np.bool_)
    )


class SV:
    """symbolic real scalar"""

    __slots__ = ("z", "bad")

    def __init__(self, z_, bad=None):
        self.z = z_
        self.bad = bad

    def _bin(self, o, f, extra=None, rev=False):
        if isinstance(o, _np.ndarray):
            return NotImplemented
        if isinstance(o, (bool, _np.bool_)):
            o = int(o)
        if isinstance(o, (float, _np.floating)) and not math.isfinite(float(o)):
            # arithmetic with inf/nan constants: the result is non-finite (inf or NaN): flagged
            return SV(z3.RealVal(0), _TRUE)
        if not (isinstance(o, (SV, SInt)) or is_num(o)):
            return NotImplemented
        oz = _z(o)
        a, b = (oz, self.z) if rev else (self.z, oz)
        bb = bor(self.bad, _bad(o))
        if extra is not None:
            e = extra(a, b)
            if e is not None:
                bb = bor(bb, e)
        return SV(f(a, b), bb)

    def __add__(s, o):
        return s._bin(o, lambda a, b: a + b)

    def __radd__(s, o):
        return s._bin(o, lambda a, b: a + b, rev=True)

    def __sub__(s, o):
        return s._bin(o, lambda a, b: a - b)

    def __rsub__(s, o):
        return s._bin(o, lambda a, b: a - b, rev=True)

    def __mul__(s, o):
        return s._bin(o, lambda a, b: a * b)

    def __rmul__(s, o):
        return s._bin(o, lambda a, b: a * b, rev=True)

    @staticmethod
    def _divbad(a, b):
        if z3.is_rational_value(b):
            return _TRUE if b.as_fraction() == 0 else None
        return b == 0

    def __truediv__(s, o):
        return s._bin(o, lambda a, b: a / b, SV._divbad)

    def __rtruediv__(s, o):
        return s._bin(o, lambda a, b: a / b, SV._divbad, rev=True)

    def __neg__(s):
        return SV(-s.z, s.bad)

    def __pos__(s):
        return s

    def __pow__(s, o):
        if isinstance(o, (float, _np.floating)) and float(o).is_integer():
            o = int(o)
        if isinstance(o, (int, _np.integer)):
            o = int(o)
            if o == 0:
                return SV(z3.RealVal(1), s.bad)
            if o > 0:
                r = s.z
                for _ in range(o - 1):
                    r = r * s.z
                return SV(r, s.bad)
            return 1 / (s ** (-o))
        if o == 0.5:
            return s.sqrt()
        raise Unsupported("pow with exponent %r" % (o,))

    def __abs__(s):
        return SV(z3.If(s.z >= 0, s.z, -s.z), s.bad)

    def _cmp(s, o, f):
        if isinstance(o, _np.ndarray):
            return NotImplemented
        if isinstance(o, (float, _np.floating)) and not math.isfinite(float(o)):
            # comparison of a finite-or-NaN symbolic value with +-inf / nan
            if math.isnan(float(o)):
                return SB(_FALSE)
            big = float(o) > 0
            r = f(z3.RealVal(0), z3.RealVal(1 if big else -1))  # any finite x vs +inf behaves like 0 vs 1
            r = z3.simplify(r)
            return SB(r if s.bad is None else z3.And(z3.Not(s.bad), r))
        if not (isinstance(o, (SV, SInt)) or is_num(o) or isinstance(o, (bool, _np.bool_))):
            return NotImplemented
        b = bor(s.bad, _bad(o))
        r = f(s.z, _z(o))
        # numpy semantics: any comparison (except !=) with NaN is False
        return SB(r if b is None else z3.And(z3.Not(b), r))

    def __lt__(s, o):
        return s._cmp(o, lambda a, b: a < b)

    def __le__(s, o):
        return s._cmp(o, lambda a, b: a <= b)

    def __gt__(s, o):
        return s._cmp(o, lambda a, b: a > b)

    def __ge__(s, o):
        return s._cmp(o, lambda a, b: a >= b)

    def __eq__(s, o):
        return s._cmp(o, lambda a, b: a == b)

    def __ne__(s, o):
        if isinstance(o, _np.ndarray):
            return NotImplemented
        if not (isinstance(o, (SV, SInt)) or is_num(o)):
            return NotImplemented
        b = bor(s.bad, _bad(o))
        r = s.z != _z(o)
        return SB(r if b is None else z3.Or(b, r))

    __hash__ = None

    def log(s):
        return SV(LN(s.z), bor(s.bad, s.z <= 0))

    def exp(s):
        return SV(EX(s.z), s.bad)

    def sqrt(s):
        return SV(SQ(s.z), bor(s.bad, s.z < 0))

    def __bool__(s):
        # truthiness of a float: != 0 (NaN is truthy)
        return bool(SB(z3.Or(badz(s), s.z != 0)))

    def __float__(s):
        raise Unsupported("float() of a symbolic real outside the patched builtins")

    def __deepcopy__(s, memo):
        return s

    def __copy__(s):
        return s

    def __reduce__(s):
        raise Unsupported("pickling a symbolic scalar")

    def __repr__(s):
        return "SV(%s)" % (s.z,)

    def __format__(s, spec):
        return "<sym>"


class SB:
    """symbolic boolean; bool() forks the execution"""

    __slots__ = ("z",)

    def __init__(s, z_):
        s.z = z_

    def __bool__(s):
        return ctx().decide(s.z)

    def __and__(s, o):
        return SB(z3.And(s.z, o.z if isinstance(o, SB) else z3.BoolVal(bool(o))))

    __rand__ = __and__

    def __or__(s, o):
        return SB(z3.Or(s.z, o.z if isinstance(o, SB) else z3.BoolVal(bool(o))))

    __ror__ = __or__

    def __invert__(s):
        return SB(z3.Not(s.z))

    def __eq__(s, o):
        oz = o.z if isinstance(o, SB) else z3.BoolVal(bool(o))
        return SB(s.z == oz)

    __hash__ = None

    def __deepcopy__(s, memo):
        return s

    def __repr__(s):
        return "SB(%s)" % (s.z,)


class SInt:
    """symbolic integer with a concrete hint used when a concrete value is needed"""

    __slots__ = ("z", "hint")

    def __init__(s, z_, hint=None):
        s.z = z_
        s.hint = hint

    @staticmethod
    def _oz(o):
        if isinstance(o, SInt):
            return o.z
        if isinstance(o, (int, _np.integer)) and not isinstance(o, (bool, _np.bool_)):
            return z3.IntVal(int(o))
        return None

    def _cmp(s, o, f):
        oz = SInt._oz(o)
        if oz is None:
            if isinstance(o, SV) or is_num(o):
                return f(SV(z3.ToReal(s.z)), o)
            return NotImplemented
        return SB(f(s.z, oz))

    def __lt__(s, o):
        return s._cmp(o, lambda a, b: a < b)

    def __le__(s, o):
        return s._cmp(o, lambda a, b: a <= b)

    def __gt__(s, o):
        return s._cmp(o, lambda a, b: a > b)

    def __ge__(s, o):
        return s._cmp(o, lambda a, b: a >= b)

    def __eq__(s, o):
        if o is None:
            return False
        return s._cmp(o, lambda a, b: a == b)

    def __ne__(s, o):
        if o is None:
            return True
        return s._cmp(o, lambda a, b: a != b)

    __hash__ = None

    def _ar(s, o, f, rev=False):
        oz = SInt._oz(o)
        if oz is None:
            if isinstance(o, SV) or is_num(o):
                me = SV(z3.ToReal(s.z))
                return f(o, me) if rev else f(me, o)
            return NotImplemented
        h = None
        if s.hint is not None:
            oh = o.hint if isinstance(o, SInt) else int(o)
            if oh is not None:
                h = f(oh, s.hint) if rev else f(s.hint, oh)
        return SInt(f(oz, s.z) if rev else f(s.z, oz), h)

    def __add__(s, o):
        return s._ar(o, lambda a, b: a + b)

    def __radd__(s, o):
        return s._ar(o, lambda a, b: a + b, rev=True)

    def __sub__(s, o):
        return s._ar(o, lambda a, b: a - b)

    def __rsub__(s, o):
        return s._ar(o, lambda a, b: a - b, rev=True)

    def __mul__(s, o):
        return s._ar(o, lambda a, b: a * b)

    def __rmul__(s, o):
        return s._ar(o, lambda a, b: a * b, rev=True)

    def __truediv__(s, o):
        return SV(z3.ToReal(s.z)) / o

    def __rtruediv__(s, o):
        return o / SV(z3.ToReal(s.z))

    def __bool__(s):
        return ctx().decide(s.z != 0)

    def __index__(s):
        if s.hint is None:
            raise Unsupported("concrete value of a symbolic int without hint")
        ctx().assume(s.z == s.hint)
        return int(s.hint)

    __int__ = __index__

    def __format__(s, spec):
        return "<symint>"

    def __deepcopy__(s, memo):
        return s

    def __repr__(s):
        return "SInt(%s)" % (s.z,)


# --------------------------------------------------------------------------------------
# execution context / path exploration


def _num(e):
    if z3.is_rational_value(e):
        return e.as_fraction()
    if z3.is_int_value(e):
        return Fraction(e.as_long())
    return None


class SignAnalysis:
    """cheap, sound sign inference on terms (interval-sign abstract interpretation):
    '+' (>0), '0+' (>=0), '-' (<0), '0-' (<=0), '0' (=0), None (unknown).  Squares t*t are >= 0,
    ex(.) > 0, sqrt(.) >= 0, sums/products/quotients combine signs; symbols take the signs implied
    by simple bounds found among the path constraints."""

    def __init__(self):
        self.known = {}  # ast id of a constant -> sign
        self.memo = {}
        self.keep = []

    def learn(self, c):
        """record x > 0 / x >= 0 / x >= c / ... assumptions on plain symbols"""
        if not z3.is_app(c):
            return
        k = c.decl().kind()
        if k == z3.Z3_OP_AND:
            for ch in c.children():
                self.learn(ch)
            return
        if k not in (z3.Z3_OP_GT, z3.Z3_OP_GE, z3.Z3_OP_LT, z3.Z3_OP_LE) or c.num_args() != 2:
            return
        a, b = c.arg(0), c.arg(1)
        if _num(a) is not None and _num(b) is None:
            a, b = b, a
            k = {z3.Z3_OP_GT: z3.Z3_OP_LT, z3.Z3_OP_GE: z3.Z3_OP_LE, z3.Z3_OP_LT: z3.Z3_OP_GT, z3.Z3_OP_LE: z3.Z3_OP_GE}[k]
        v = _num(b)
        if v is None or not (z3.is_const(a) and a.decl().kind() == z3.Z3_OP_UNINTERPRETED):
            return
        sg = None
        if k == z3.Z3_OP_GT and v >= 0:
            sg = "+"
        elif k == z3.Z3_OP_GE and v > 0:
            sg = "+"
        elif k == z3.Z3_OP_GE and v == 0:
            sg = "0+"
        elif k == z3.Z3_OP_LT and v <= 0:
            sg = "-"
        elif k == z3.Z3_OP_LE and v < 0:
            sg = "-"
        elif k == z3.Z3_OP_LE and v == 0:
            sg = "0-"
        if sg:
            old = self.known.get(a.get_id())
            if old is None or (old in ("0+", "0-") and sg in ("+", "-")):
                self.known[a.get_id()] = sg
                self.keep.append(a)
                self.memo = {}

    @staticmethod
    def _neg(s):
        return {"+": "-", "-": "+", "0+": "0-", "0-": "0+", "0": "0", None: None}[s]

    @staticmethod
    def _add(a, b):
        if a == "0":
            return b
        if b == "0":
            return a
        if a is None or b is None:
            return None
        pos = {"+", "0+"}
        neg = {"-", "0-"}
        if a in pos and b in pos:
            return "+" if "+" in (a, b) else "0+"
        if a in neg and b in neg:
            return "-" if "-" in (a, b) else "0-"
        return None

    @staticmethod
    def _mul(a, b):
        if a == "0" or b == "0":
            return "0"
        if a is None or b is None:
            return None
        strict = a in ("+", "-") and b in ("+", "-")
        negative = (a in ("-", "0-")) != (b in ("-", "0-"))
        if strict:
            return "-" if negative else "+"
        return "0-" if negative else "0+"

    def sign(self, e):
        k = e.get_id()
        hit = self.memo.get(k)
        if hit is not None:
            return hit[1]
        r = self._sign(e)
        self.memo[k] = (e, r)  # keep the term alive: z3 re-uses the ids of dead ASTs
        return r

    def _sign(self, e):
        v = _num(e)
        if v is not None:
            return "+" if v > 0 else ("-" if v < 0 else "0")
        if not z3.is_app(e):
            return None
        kind = e.decl().kind()
        ch = e.children()
        if kind == z3.Z3_OP_UNINTERPRETED:
            if not ch:
                return self.known.get(e.get_id())
            nm = e.decl().name()
            if nm == "ex":
                return "+"
            if nm == "sqrt":
                return "0+"
            return None
        if kind == z3.Z3_OP_ADD:
            r = "0"
            for c in ch:
                r = self._add(r, self.sign(c))
                if r is None:
                    return None
            return r
        if kind == z3.Z3_OP_SUB:
            r = self.sign(ch[0])
            for c in ch[1:]:
                r = self._add(r, self._neg(self.sign(c)))
                if r is None:
                    return None
            return r
        if kind == z3.Z3_OP_UMINUS:
            return self._neg(self.sign(ch[0]))
        if kind in (z3.Z3_OP_MUL, z3.Z3_OP_DIV):
            # flatten the product/quotient tree; identical factors pair up (squares are >= 0)
            num, den, flip = [], [], False
            stack = [(e, False)]
            while stack:
                t, inden = stack.pop()
                tk = t.decl().kind() if z3.is_app(t) else None
                if tk == z3.Z3_OP_MUL:
                    for c in t.children():
                        stack.append((c, inden))
                elif tk == z3.Z3_OP_DIV:
                    stack.append((t.arg(0), inden))
                    stack.append((t.arg(1), not inden))
                elif tk == z3.Z3_OP_UMINUS:
                    flip = not flip
                    stack.append((t.arg(0), inden))
                else:
                    (den if inden else num).append(t)
            cnt = {}
            for c in num + den:
                cnt.setdefault(c.get_id(), [c, 0])[1] += 1
            for c in den:
                if self.sign(c) not in ("+", "-"):
                    return None
            r = "+"
            for c, n in cnt.values():
                sc = self.sign(c)
                if n % 2 == 0:
                    sc = "+" if sc in ("+", "-") else ("0" if sc == "0" else "0+")
                r = self._mul(r, sc)
                if r is None:
                    return None
            return self._neg(r) if flip else r
        if kind == z3.Z3_OP_ITE:
            a, b = self.sign(ch[1]), self.sign(ch[2])
            if a == b:
                return a
            if a is None or b is None:
                return None
            if {a, b} <= {"+", "0+", "0"}:
                return "0+"
            if {a, b} <= {"-", "0-", "0"}:
                return "0-"
            return None
        if kind == z3.Z3_OP_TO_REAL:
            return self.sign(ch[0])
        return None

    def decide(self, c):
        """True / False / None for a boolean condition"""
        if z3.is_true(c):
            return True
        if z3.is_false(c):
            return False
        if not z3.is_app(c):
            return None
        k = c.decl().kind()
        ch = c.children()
        if k == z3.Z3_OP_NOT:
            r = self.decide(ch[0])
            return None if r is None else (not r)
        if k == z3.Z3_OP_OR:
            rs = [self.decide(x) for x in ch]
            if any(r is True for r in rs):
                return True
            if all(r is False for r in rs):
                return False
            return None
        if k == z3.Z3_OP_AND:
            rs = [self.decide(x) for x in ch]
            if any(r is False for r in rs):
                return False
            if all(r is True for r in rs):
                return True
            return None
        if k in (z3.Z3_OP_EQ, z3.Z3_OP_DISTINCT, z3.Z3_OP_GT, z3.Z3_OP_GE, z3.Z3_OP_LT, z3.Z3_OP_LE) and len(ch) == 2 and ch[0].sort() == RS:
            a, b = ch
            if _num(b) is None or _num(b) != 0:
                if _num(a) is not None and _num(a) == 0:
                    a, b = b, a
                    k = {z3.Z3_OP_GT: z3.Z3_OP_LT, z3.Z3_OP_GE: z3.Z3_OP_LE, z3.Z3_OP_LT: z3.Z3_OP_GT, z3.Z3_OP_LE: z3.Z3_OP_GE}.get(k, k)
                else:
                    s = self.sign(a - b)
                    a = None
            if a is not None:
                s = self.sign(a)
            if s is None:
                return None
            table = {
                z3.Z3_OP_EQ: {"+": False, "-": False, "0": True},
                z3.Z3_OP_DISTINCT: {"+": True, "-": True, "0": False},
                z3.Z3_OP_GT: {"+": True, "-": False, "0": False, "0-": False},
                z3.Z3_OP_GE: {"+": True, "0+": True, "0": True, "-": False},
                z3.Z3_OP_LT: {"-": True, "+": False, "0": False, "0+": False},
                z3.Z3_OP_LE: {"-": True, "0-": True, "0": True, "+": False},
            }
            return table[k].get(s)
        return None


class Ctx:
    cur = None

    def __init__(self, pre=(), decisions=(), feas_timeout=1500, check_feas=True):
        self.pre = list(pre)
        self.decisions = list(decisions)
        self.taken = []  # (cond, value)
        self.pc = []  # path constraints (z3 Bool)
        self.siblings = []  # decision prefixes still to explore
        self.check_feas = check_feas
        self.solver = None
        self.feas_timeout = feas_timeout
        self.queries = 0
        self.notes = {}
        self.signs = SignAnalysis()
        for c in self.pre:
            self.signs.learn(c)
        self.memo = {}

    def _solver(self):
        if self.solver is None:
            self.solver = z3.Solver()
            self.solver.set("timeout", self.feas_timeout)
            self.solver.add(self.pre)
            self.solver.add(self.pc)
        return self.solver

    def feasible(self, cond):
        """True unless the solver proves pre & pc & cond unsat"""
        if not self.check_feas:
            return True
        # fast path: linear abstraction with sign propagation (unsat there => infeasible)
        try:
            from .normal import abstract_nl

            ab = abstract_nl([cond], context=self.pre + self.pc)
            sa = z3.Solver()
            sa.set("timeout", 1500)
            sa.add(ab)
            self.queries += 1
            ra = sa.check()
            if ra == z3.unsat:
                return False
        except Exception:
            pass
        s = self._solver()
        s.push()
        s.add(cond)
        self.queries += 1
        r = s.check()
        s.pop()
        return r != z3.unsat

    @staticmethod
    def _nonlinear(c):
        st, seen = [c], set()
        while st:
            e = st.pop()
            if e.get_id() in seen:
                continue
            seen.add(e.get_id())
            if z3.is_app(e):
                k = e.decl().kind()
                if k in (z3.Z3_OP_MUL, z3.Z3_OP_DIV, z3.Z3_OP_UNINTERPRETED) and e.num_args() > 0:
                    return True
                st.extend(e.children())
        return False

    def _commit(self, c):
        self.signs.learn(c)
        self.pc.append(c)
        if self.solver is not None:
            self.solver.add(c)

    def decide(self, cond):
        quick = self.signs.decide(cond)
        if quick is not None:
            return quick
        cond = z3.simplify(cond)
        if z3.is_true(cond):
            return True
        if z3.is_false(cond):
            return False
        quick = self.signs.decide(cond)
        if quick is not None:
            return quick
        i = len(self.taken)
        if i < len(self.decisions):
            v = self.decisions[i]
        else:
            ft = self.feasible(cond)
            ff = self.feasible(z3.Not(cond))
            if ft and ff:
                v = True
                self.siblings.append([t[1] for t in self.taken] + [False])
            elif ft:
                v = True
            elif ff:
                v = False
            else:
                raise PathAbort("infeasible path")
        self.taken.append((cond, v))
        self._commit(cond if v else z3.Not(cond))
        return v

    def assume(self, cond):
        """restrict the current path (recorded in pc); abort if infeasible"""
        self.signs.learn(cond)
        cond = z3.simplify(cond)
        if z3.is_true(cond):
            return
        if z3.is_false(cond) or not self.feasible(cond):
            raise PathAbort("assumption infeasible")
        self._commit(cond)


def ctx():
    if Ctx.cur is None:
        Ctx.cur = Ctx()
    return Ctx.cur


class Path:
    __slots__ = ("pc", "status", "result", "decisions", "queries", "notes")

    def __init__(self, pc, status, result, decisions, queries, notes):
        self.pc = pc
        self.status = status  # 'ok' | 'raise' | 'abort'
        self.result = result
        self.decisions = decisions
        self.queries = queries
        self.notes = notes


def explore(fn, pre=(), max_paths=512, feas_timeout=1500, catch=(Exception,)):
    """Depth-first exploration of all feasible decision sequences of fn()."""
    stack = [[]]
    out = []
    while stack:
        dec = stack.pop()
        c = Ctx(pre, dec, feas_timeout)
        Ctx.cur = c
        try:
            res = fn()
            status = "ok"
        except PathAbort as e:
            res, status = e, "abort"
        except Unsupported:
            raise
        except catch as e:  # the analysed code raised on this path
            res, status = e, "raise"
        stack.extend(c.siblings)
        out.append(Path(list(c.pc), status, res, [t[1] for t in c.taken], c.queries, c.notes))
        if len(out) > max_paths:
            raise Unsupported("path bound %d exceeded" % max_paths)
    Ctx.cur = None
    return out


def run1(fn, pre=()):
    """Run fn on a single path; error if it forks."""
    ps = [p for p in explore(fn, pre) if p.status != "abort"]
    if len(ps) != 1:
        raise Unsupported("expected a single path, got %d" % len(ps))
    p = ps[0]
    if p.status == "raise":
        raise p.result
    return p.result


# --------------------------------------------------------------------------------------
# constructors

_fresh = itertools.count()


def real(name):
    return SV(z3.Real(name))


def fresh(prefix="t"):
    return SV(z3.Real("%s!%d" % (prefix, next(_fresh))))


def arr(name, shape):
    from .shim import SArr

    if isinstance(shape, int):
        shape = (shape,)
    a = _np.empty(shape, dtype=object)
    for idx in _np.ndindex(*shape):
        a[idx] = real(name + "".join("_%d" % i for i in idx))
    return a.view(SArr)


def zs(a):
    """flat list of z3 terms of an array/scalar of SV/numbers"""
    if isinstance(a, (SV, SInt)) or is_num(a):
        return [_z(a)]
    return [_z(v) for v in _np.asarray(a, dtype=object).flat]


def bads(a):
    if isinstance(a, SV):
        return [a.bad] if a.bad is not None else []
    if is_num(a) or isinstance(a, SInt):
        return []
    return [v.bad for v in _np.asarray(a, dtype=object).flat if isinstance(v, SV) and v.bad is not None]


def anybad(*arrays):
    bs = []
    for a in arrays:
        bs += bads(a)
    return z3.Or(*bs) if bs else _FALSE


def eqs(a, b):
    """z3 conjunction: arrays equal elementwise (shapes must match exactly)"""
    sa, sb = _np.shape(a), _np.shape(b)
    if sa != sb:
        raise ShapeMismatch(sa, sb)
    za, zb = zs(a), zs(b)
    cs = [x == y for x, y in zip(za, zb)]
    return z3.And(*cs) if cs else _TRUE


class ShapeMismatch(Exception):
    pass


# --------------------------------------------------------------------------------------
# numeric re-evaluation of terms under a model (true log/exp/sqrt)


def frac_of(v):
    if z3.is_rational_value(v):
        return v.as_fraction()
    if z3.is_algebraic_value(v):
        return v.approx(30).as_fraction()
    if z3.is_int_value(v):
        return Fraction(v.as_long())
    raise ValueError("not a value: %s" % v)


def model_env(model):
    """{name: Fraction} for the 0-ary real/int constants of a model"""
    env = {}
    for d in model.decls():
        if d.arity() == 0:
            v = model[d]
            try:
                env[d.name()] = frac_of(v)
            except Exception:
                if z3.is_true(v):
                    env[d.name()] = True
                elif z3.is_false(v):
                    env[d.name()] = False
    return env


def evalf(t, env, cache=None):
    """Evaluate a z3 term numerically (floats, true ln/exp/sqrt). NaN propagates.
    env: {const name: number}.  Unknown constants evaluate to 0.0 (model completion)."""
    if cache is None:
        cache = {}
    stack = [(t, False)]
    while stack:
        e, done = stack.pop()
        k = e.get_id()
        if k in cache:
            continue
        if not done:
            if z3.is_rational_value(e) or z3.is_int_value(e):
                f = e.as_fraction() if z3.is_rational_value(e) else Fraction(e.as_long())
                cache[k] = float(f)
                continue
            if z3.is_algebraic_value(e):
                cache[k] = float(e.approx(20).as_fraction())
                continue
            if z3.is_true(e):
                cache[k] = True
                continue
            if z3.is_false(e):
                cache[k] = False
                continue
            if z3.is_const(e) and e.decl().kind() == z3.Z3_OP_UNINTERPRETED:
                v = env.get(e.decl().name(), 0.0)
                cache[k] = v if isinstance(v, bool) else float(v)
                continue
            stack.append((e, True))
            for ch in e.children():
                if ch.get_id() not in cache:
                    stack.append((ch, False))
            continue
        a = [cache[ch.get_id()] for ch in e.children()]
        kind = e.decl().kind()
        nm = e.decl().name()
        try:
            if kind == z3.Z3_OP_ADD:
                r = math.fsum(a)
            elif kind == z3.Z3_OP_SUB:
                r = a[0] - math.fsum(a[1:])
            elif kind == z3.Z3_OP_UMINUS:
                r = -a[0]
            elif kind == z3.Z3_OP_MUL:
                r = 1.0
                for x in a:
                    r *= x
            elif kind in (z3.Z3_OP_DIV, z3.Z3_OP_IDIV):
                r = a[0] / a[1] if a[1] != 0 else float("nan")
            elif kind == z3.Z3_OP_POWER:
                r = a[0] ** a[1]
            elif kind == z3.Z3_OP_TO_REAL or kind == z3.Z3_OP_TO_INT:
                r = a[0]
            elif kind == z3.Z3_OP_ITE:
                r = a[1] if a[0] else a[2]
            elif kind == z3.Z3_OP_AND:
                r = all(a)
            elif kind == z3.Z3_OP_OR:
                r = any(a)
            elif kind == z3.Z3_OP_NOT:
                r = not a[0]
            elif kind == z3.Z3_OP_IMPLIES:
                r = (not a[0]) or a[1]
            elif kind == z3.Z3_OP_EQ or kind == z3.Z3_OP_IFF:
                r = a[0] == a[1]
            elif kind == z3.Z3_OP_DISTINCT:
                r = len(set(a)) == len(a)
            elif kind == z3.Z3_OP_LE:
                r = a[0] <= a[1]
            elif kind == z3.Z3_OP_LT:
                r = a[0] < a[1]
            elif kind == z3.Z3_OP_GE:
                r = a[0] >= a[1]
            elif kind == z3.Z3_OP_GT:
                r = a[0] > a[1]
            elif nm == "ln":
                r = math.log(a[0]) if a[0] > 0 else float("nan")
            elif nm == "ex":
                r = math.exp(a[0]) if a[0] < 700 else float("inf")
            elif nm == "sqrt":
                r = math.sqrt(a[0]) if a[0] >= 0 else float("nan")
            elif nm.startswith("inv") and "_" in nm:
                n = int(nm[3 : nm.index("_")])
                i, j = int(nm[-2]), int(nm[-1])
                r = float(_np.linalg.inv(_np.array(a, dtype=float).reshape(n, n))[i, j])
            elif nm.startswith("chol") and "_" in nm:
                n = int(nm[4 : nm.index("_")])
                i, j = int(nm[-2]), int(nm[-1])
                A = _np.zeros((n, n))
                it = iter(a)
                for ii in range(n):
                    for jj in range(ii + 1):
                        A[ii, jj] = A[jj, ii] = next(it)
                r = float(_np.linalg.cholesky(A)[i, j])
            else:
                raise Unsupported("evalf: %s" % e.decl())
        except (OverflowError, ValueError, _np.linalg.LinAlgError):
            r = float("nan")
        cache[k] = r
    return cache[t.get_id()]
