"""Polynomial normal form + linear abstraction.

Every real-valued term is expanded into a polynomial over *atoms* (input symbols, reciprocals
of non-monomial denominators, ln/ex/sqrt/inv/chol applications keyed on the normal form of
their arguments, if-then-else terms with a defining constraint).  Each distinct monomial of
degree >= 2 becomes one fresh real variable, so the abstracted query is linear (QF_LRA with
ite).  Two terms that are equal as polynomials in the atoms get the *same* abstract term, which
decides re-association, re-ordering, distribution and differently placed divisions instantly.

Soundness: the abstraction only forgets facts (the meaning of products / functions), so an
`unsat` answer for the abstracted formula implies `unsat` for the original.  A `sat` answer
means nothing by itself (its model is tried as a candidate input on the real code).
"""
from fractions import Fraction

import z3

MAX_TERMS = 3000


class TooBig(Exception):
    pass


class Normaliser:
    def __init__(self):
        self.atoms = []  # z3 consts standing for atoms
        self.akey = {}  # key -> atom index
        self.mono = {}  # monomial (tuple of atom idx, len >= 2) -> z3 const
        self.pcache = {}  # ast id -> poly
        self.bcache = {}
        self.side = []  # defining constraints (ite atoms) and congruence
        self.uf_apps = {}  # fname -> list of (atom idx, [arg rebuilt terms])
        self.keep = []
        self.ctx = None
        self.dcache = {}
        self.nside = 0
        self.alias = {}
        self.ite_atoms = []

    # ---- atoms
    def atom(self, key, sort=None, term=None):
        i = self.akey.get(key)
        if i is None:
            i = len(self.atoms)
            self.akey[key] = i
            self.atoms.append(term if term is not None else z3.Const("a!%d" % i, sort or z3.RealSort()))
        return i

    @staticmethod
    def pkey(p):
        return tuple(sorted(p.items()))

    # ---- polynomials: dict monomial(tuple of sorted atom idx) -> Fraction
    @staticmethod
    def const(c):
        c = Fraction(c)
        return {(): c} if c != 0 else {}

    @staticmethod
    def add(p, q, sign=1):
        r = dict(p)
        for m, c in q.items():
            v = r.get(m, 0) + sign * c
            if v == 0:
                r.pop(m, None)
            else:
                r[m] = v
        return r

    @staticmethod
    def scale(p, c):
        if c == 0:
            return {}
        return {m: v * c for m, v in p.items()}

    def atomize(self, p):
        """name a big polynomial by one atom (keyed canonically, so equal polynomials share it)"""
        key = ("big", self.pkey(p))
        new = key not in self.akey
        i = self.atom(key)
        if new:
            self.side.append(self.atoms[i] == self.rebuild(p))
        return {(i,): Fraction(1)}

    def mul(self, p, q):
        if len(p) * len(q) > MAX_TERMS:
            if len(p) > 6:
                p = self.atomize(p)
            if len(q) > 6 and len(p) * len(q) > MAX_TERMS:
                q = self.atomize(q)
            if len(p) * len(q) > 50 * MAX_TERMS:
                raise TooBig()
        r = {}
        for m1, c1 in p.items():
            for m2, c2 in q.items():
                m = tuple(sorted(m1 + m2))
                v = r.get(m, 0) + c1 * c2
                if v == 0:
                    r.pop(m, None)
                else:
                    r[m] = v
        return r

    def recip_atom(self, i):
        """atom for 1/atom_i ; recip(recip(x)) = x"""
        if not hasattr(self, "rkeys"):
            self.rkeys = {}
            self.rinv = {}
        if i in self.rinv:
            return self.rinv[i]
        if i in self.rkeys:
            return self.rkeys[i]
        j = self.atom(("recip", i))
        self.rkeys[i] = j
        self.rinv[j] = i
        self.uf_apps.setdefault(("recip", 1), []).append((j, [self.atoms[i]]))
        return j

    def cancel(self, mono):
        """remove x * recip(x) pairs from a monomial (division-by-zero is tracked separately by
        the NaN flags of the symbolic scalars, so x/x = 1 is used only under their 'not bad' claims)"""
        if not hasattr(self, "rkeys"):
            return mono
        m = list(mono)
        changed = True
        while changed:
            changed = False
            for a in m:
                r = self.rkeys.get(a)
                if r is not None and r in m:
                    m.remove(a)
                    m.remove(r)
                    changed = True
                    break
        return tuple(sorted(m))

    def poly(self, e):
        k = e.get_id()
        if k in self.pcache:
            return self.pcache[k]
        self.keep.append(e)
        p = self._poly(e)
        self.pcache[k] = p
        return p

    def _poly(self, e):
        if z3.is_rational_value(e):
            return self.const(e.as_fraction())
        if z3.is_int_value(e):
            return self.const(e.as_long())
        if z3.is_algebraic_value(e):
            return {(self.atom(("alg", str(e))),): Fraction(1)}
        if not z3.is_app(e):
            raise TooBig()
        kind = e.decl().kind()
        ch = e.children()
        if kind == z3.Z3_OP_ADD:
            r = {}
            for c in ch:
                r = self.add(r, self.poly(c))
            return r
        if kind == z3.Z3_OP_SUB:
            r = self.poly(ch[0])
            for c in ch[1:]:
                r = self.add(r, self.poly(c), -1)
            return r
        if kind == z3.Z3_OP_UMINUS:
            return self.scale(self.poly(ch[0]), -1)
        if kind == z3.Z3_OP_MUL:
            r = self.const(1)
            for c in ch:
                r = self.mul(r, self.poly(c))
            return self._cancel_all(r)
        if kind == z3.Z3_OP_DIV:
            pa, pb = self.poly(ch[0]), self.poly(ch[1])
            if not pb:
                return {(self.atom(("div0", e.get_id())),): Fraction(1)}
            if len(pb) == 1:
                (m, c), = pb.items()
                r = self.scale(pa, 1 / c)
                if m:
                    rm = tuple(sorted(self.recip_atom(a) for a in m))
                    r = self.mul(r, {rm: Fraction(1)})
                return self._cancel_all(r)
            # non-monomial denominator: an atom for the (scale-canonical) polynomial P and one for 1/P,
            # tied together by the *linear* facts  a_P = P  and  sum_m c_m * (m * r) = 1
            lead = sorted(pb.items())[0][1]
            canon = self.scale(pb, 1 / lead)
            key = ("poly", self.pkey(canon))
            new = key not in self.akey
            i = self.atom(key)
            r_ = self.recip_atom(i)
            if new:
                self.side.append(self.atoms[i] == self.rebuild(canon))
                self.side.append(self.rebuild(self.mul(canon, {(r_,): Fraction(1)})) == 1)
            return self._cancel_all(self.mul(self.scale(pa, 1 / lead), {(r_,): Fraction(1)}))
        if kind == z3.Z3_OP_TO_REAL:
            return {(self.atom(("toreal", ch[0].get_id()), term=e),): Fraction(1)}
        if kind == z3.Z3_OP_ITE:
            c = self.boolean(ch[0])
            pa, pb = self.poly(ch[1]), self.poly(ch[2])
            if z3.is_true(c):
                return pa
            if z3.is_false(c):
                return pb
            if self.pkey(pa) == self.pkey(pb):
                return pa
            dec = self.decided(c)
            if dec is True:
                return pa
            if dec is False:
                return pb
            key = ("ite", c.get_id(), self.pkey(pa), self.pkey(pb))
            if key in self.alias:
                return {(self.alias[key],): Fraction(1)}
            new = key not in self.akey
            i = self.atom(key)
            if new:
                self.keep.append(c)
                d = self.atoms[i] == z3.If(c, self.rebuild(pa), self.rebuild(pb))
                self.side.append(d)
                if self.ctx is not None:
                    # is this if-then-else provably equal (under the context) to an earlier one?
                    self.ctx.add(d)
                    self.nside = len(self.side)
                    for j in self.ite_atoms:
                        try:
                            self.ctx.push()
                            self.ctx.add(self.atoms[i] != self.atoms[j])
                            same = self.ctx.check() == z3.unsat
                            self.ctx.pop()
                        except z3.Z3Exception:
                            same = False
                        if same:
                            self.alias[key] = j
                            return {(j,): Fraction(1)}
                self.ite_atoms.append(i)
            return {(i,): Fraction(1)}
        if kind == z3.Z3_OP_UNINTERPRETED:
            if not ch:
                return {(self.atom(("leaf", e.get_id()), term=e),): Fraction(1)}
            if e.sort() != z3.RealSort():
                raise TooBig()
            args = [self.poly(c) for c in ch]
            key = ("uf", e.decl().name(), tuple(self.pkey(a) for a in args))
            new = key not in self.akey
            i = self.atom(key)
            if new:
                self.uf_apps.setdefault((e.decl().name(), len(args)), []).append((i, [self.rebuild(a) for a in args]))
            return {(i,): Fraction(1)}
        if kind == z3.Z3_OP_POWER and z3.is_int_value(ch[1]) or (kind == z3.Z3_OP_POWER and z3.is_rational_value(ch[1]) and ch[1].as_fraction().denominator == 1):
            n = int(ch[1].as_fraction()) if z3.is_rational_value(ch[1]) else ch[1].as_long()
            if n >= 0:
                r = self.const(1)
                b = self.poly(ch[0])
                for _ in range(n):
                    r = self.mul(r, b)
                return r
        # anything else: opaque atom keyed on the normal forms of the children
        args = [self.poly(c) if c.sort() in (z3.RealSort(), z3.IntSort()) else None for c in ch]
        key = ("op", e.decl().name(), kind, tuple(self.pkey(a) if a is not None else c.get_id() for a, c in zip(args, ch)))
        return {(self.atom(key),): Fraction(1)}

    def _cancel_all(self, p):
        if not hasattr(self, "rkeys") or not self.rkeys:
            return p
        r = {}
        for m, c in p.items():
            m2 = self.cancel(m)
            v = r.get(m2, 0) + c
            if v == 0:
                r.pop(m2, None)
            else:
                r[m2] = v
        return r

    def decided(self, c):
        """is the (abstracted) condition implied / refuted by the context assumptions?"""
        if self.ctx is None:
            return None
        k = c.get_id()
        if k in self.dcache:
            return self.dcache[k]
        r = None
        try:
            self.ctx.push()
            self.ctx.add(z3.Not(c))
            if self.ctx.check() == z3.unsat:
                r = True
            self.ctx.pop()
            if r is None:
                self.ctx.push()
                self.ctx.add(c)
                if self.ctx.check() == z3.unsat:
                    r = False
                self.ctx.pop()
        except z3.Z3Exception:
            r = None
        self.dcache[k] = r
        return r

    def assume(self, b):
        """add an abstracted assumption to the context used to decide if-then-else conditions"""
        if self.ctx is None:
            self.ctx = z3.Solver()
            self.ctx.set("timeout", 500)
        self.ctx.add(b)
        n = len(self.side)
        for sd in self.side[self.nside:]:
            self.ctx.add(sd)
        self.nside = n

    # ---- back to z3 (linear over atoms and monomial variables)
    def mvar(self, m):
        if len(m) == 1:
            return self.atoms[m[0]]
        v = self.mono.get(m)
        if v is None:
            v = z3.Real("m!%d" % len(self.mono))
            self.mono[m] = v
        return v

    def rebuild(self, p):
        if not p:
            return z3.RealVal(0)
        terms = []
        for m, c in sorted(p.items()):
            cv = z3.RealVal("%d/%d" % (c.numerator, c.denominator))
            if not m:
                terms.append(cv)
            elif c == 1:
                terms.append(self.mvar(m))
            else:
                terms.append(cv * self.mvar(m))
        return terms[0] if len(terms) == 1 else z3.Sum(terms)

    # ---- booleans
    def boolean(self, e):
        k = e.get_id()
        if k in self.bcache:
            return self.bcache[k]
        self.keep.append(e)
        r = self._boolean(e)
        self.bcache[k] = r
        return r

    def _boolean(self, e):
        if z3.is_true(e) or z3.is_false(e):
            return e
        kind = e.decl().kind()
        ch = e.children()
        if kind in (z3.Z3_OP_AND, z3.Z3_OP_OR, z3.Z3_OP_NOT, z3.Z3_OP_IMPLIES, z3.Z3_OP_XOR):
            return e.decl()(*[self.boolean(c) for c in ch])
        if kind == z3.Z3_OP_ITE:
            return z3.If(self.boolean(ch[0]), self.boolean(ch[1]), self.boolean(ch[2]))
        if kind in (z3.Z3_OP_EQ, z3.Z3_OP_DISTINCT, z3.Z3_OP_LE, z3.Z3_OP_LT, z3.Z3_OP_GE, z3.Z3_OP_GT, z3.Z3_OP_IFF):
            if ch[0].sort() == z3.BoolSort():
                return e.decl()(*[self.boolean(c) for c in ch])
            if ch[0].sort() in (z3.RealSort(), z3.IntSort()) and len(ch) == 2:
                if ch[0].sort() == z3.IntSort():
                    return e
                d = self.rebuild(self.add(self.poly(ch[0]), self.poly(ch[1]), -1))
                zero = z3.RealVal(0)
                return {z3.Z3_OP_EQ: d == zero, z3.Z3_OP_DISTINCT: d != zero, z3.Z3_OP_LE: d <= zero, z3.Z3_OP_LT: d < zero, z3.Z3_OP_GE: d >= zero, z3.Z3_OP_GT: d > zero}[kind]
        if kind == z3.Z3_OP_UNINTERPRETED and not ch:
            return e
        raise TooBig()

    def congruence(self, limit=150):
        out = []
        for (f, n), apps in self.uf_apps.items():
            if len(apps) < 2 or len(apps) > limit:
                continue
            for i in range(len(apps)):
                for j in range(i + 1, len(apps)):
                    (a, aa), (b, bb) = apps[i], apps[j]
                    out.append(z3.Implies(z3.And(*[x == y for x, y in zip(aa, bb)]), self.atoms[a] == self.atoms[b]))
        return out

    def facts(self):
        """cheap sound facts about atoms: x * recip(x) handled by cancellation; recip sign"""
        out = []
        if hasattr(self, "rkeys"):
            for a, r in self.rkeys.items():
                x, y = self.atoms[a], self.atoms[r]
                out.append(z3.Implies(x > 0, y > 0))
                out.append(z3.Implies(x < 0, y < 0))
        return out


def sign_facts(N, base, rounds=3, budget=400):
    """sound sign information for monomial variables, derived by propagation:
    ex(.) > 0, sqrt(.) >= 0, signs of atoms implied by the (abstracted) assumptions, sign of a
    product from the signs of its factors (even powers are >= 0), reciprocals keep the sign."""
    facts = []
    sign = {}  # atom idx -> '+', '0+', '-', '0-'
    for key, i in N.akey.items():
        if key[0] == "uf" and key[1] == "ex":
            sign[i] = "+"
            facts.append(N.atoms[i] > 0)
        elif key[0] == "uf" and key[1] == "sqrt":
            sign[i] = "0+"
            facts.append(N.atoms[i] >= 0)
    queries = 0
    done_m = {}
    for rnd in range(rounds):
        S = z3.Solver()
        S.set("timeout", 300)
        S.add(base + facts)
        progress = False
        for key, i in list(N.akey.items()):
            if sign.get(i) in ("+", "-") or queries > budget:
                continue
            a = N.atoms[i]
            if key[0] == "recip":
                sg = sign.get(key[1])
                if sg in ("+", "-") and sign.get(i) != sg:
                    sign[i] = sg
                    facts.append(a > 0 if sg == "+" else a < 0)
                    progress = True
                continue
            for sg, neg in (("+", a <= 0), ("-", a >= 0), ("0+", a < 0), ("0-", a > 0)):
                if sign.get(i) == sg:
                    break
                if sg in ("0+", "0-") and sign.get(i) in ("0+", "0-"):
                    continue
                S.push()
                S.add(neg)
                queries += 1
                try:
                    r = S.check()
                except z3.Z3Exception:
                    r = z3.unknown
                S.pop()
                if r == z3.unsat:
                    sign[i] = sg
                    progress = True
                    break
        for m, v in N.mono.items():
            cur = done_m.get(m)
            if cur == "strict":
                continue
            strict, known, negs = True, True, 0
            cnt = {}
            for a in m:
                cnt[a] = cnt.get(a, 0) + 1
            for a, k in cnt.items():
                sg = sign.get(a)
                if k % 2 == 0:
                    if sg not in ("+", "-"):
                        strict = False
                    continue
                if sg is None:
                    known = False
                    break
                if sg in ("0+", "0-"):
                    strict = False
                if sg in ("-", "0-"):
                    negs += 1
            if not known:
                continue
            kind = "strict" if strict else "weak"
            if cur == kind:
                continue
            done_m[m] = kind
            progress = True
            if negs % 2 == 0:
                facts.append(v > 0 if strict else v >= 0)
            else:
                facts.append(v < 0 if strict else v <= 0)
        if not progress:
            break
    return facts


def abstract_nl(exprs, context=()):
    """list of abstracted (linear) assertions equivalent-or-weaker than context + exprs.
    `context` (path conditions / preconditions) is processed first and used to decide
    if-then-else conditions met later (clip / maximum / where guards under the assumptions)."""
    N = Normaliser()
    res = []
    for e in context:
        b = N.boolean(e)
        res.append(b)
        N.assume(b)
    ctx_part = list(res)
    res += [N.boolean(e) for e in exprs]
    extra = N.side + N.congruence() + N.facts()
    try:
        sf = sign_facts(N, ctx_part + extra)
    except Exception:
        sf = []
    return res + extra + sf
