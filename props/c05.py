"""C05 - MAP adaptation interpolates between the prior model and the data by relevance."""
import itertools

from symexec.engine import Outcome

from .common import make_gmm, sym_stats, total

FUNCTIONS = ["gmm.map_gmm_m_step", "gmm.m_step (wrapper, functools.reduce(operator.iadd))", "gmm.GMMMachine.__init__ (prior copied into a MAP machine)",
             "gmm.GMMMachine setters (variance clamp)"]
STUBS = []
ASSUMPTIONS = ["prior weights on the simplex and > 0, prior variances > 0, prior variance floors > 0", "statistics: n_c >= 0, sum n_c = t > 0, n*S >= F^2",
               "relevance factor r > 0 (Reynolds) or fixed ratio alpha in [0,1] (scalar or per-component array)",
               "count threshold = machine epsilon (the default); a component counts as 'no evidence' iff n_c < threshold",
               "monotonicity of the relevance-penalised likelihood follows from exact E-step (C02) + the M-step being the stationary point of Q(mu) - r/2 sum (mu-mu0)^2/var (proved here) + Jensen (trusted)"]
EXHAUSTIVE = ["8 combinations of update_means/variances/weights", "Reynolds / scalar alpha / per-component alpha", "statistics given as one object or split in two (reduced by the wrapper)"]
OUTSIDE = ["sizes beyond (C,D) listed", "rounding"]
SIZES = {"quick": [(1, 1), (2, 2)], "thorough": [(1, 1), (2, 2), (3, 2), (3, 3)]}
KNOWN = "C05-map-variance-prior-mean-not-squared"


def bounds(tier):
    return dict(C_D=SIZES[tier], switches="all 8", modes=["reynolds", "alpha-scalar in [0,1)", "alpha-array in [0,1)", "alpha = 1"])


def sc_map(B, C, D, um, uv, uw, mode, split=False):
    gmm = B.mod("gmm")
    ubm, UP = make_gmm(B, C, D, "vector", pre="u", simplex=True)
    if mode == "reynolds":
        r = B.real("r", pos=True)
        m = gmm.GMMMachine(C, trainer="map", ubm=ubm, update_means=um, update_variances=uv, update_weights=uw, map_relevance_factor=r)
    elif mode == "alpha-one":
        a = 1.0
        m = gmm.GMMMachine(C, trainer="map", ubm=ubm, update_means=um, update_variances=uv, update_weights=uw, map_relevance_factor=None, map_alpha=a)
    elif mode == "alpha-scalar":
        a = B.real("alpha", lo=0, hi=1)
        B.assume(a < 1)  # alpha = 1 exactly is the separate mode "alpha-one"
        m = gmm.GMMMachine(C, trainer="map", ubm=ubm, update_means=um, update_variances=uv, update_weights=uw, map_relevance_factor=None, map_alpha=a)
    else:
        av = B.arr("alpha", (C,), lo=0, hi=1)
        for c in range(C):
            B.assume(av[c] < 1)
        m = gmm.GMMMachine(C, trainer="map", ubm=ubm, update_means=um, update_variances=uv, update_weights=uw, map_relevance_factor=None, map_alpha=B.copy(av))
    s, SP = sym_stats(B, C, D, "s")
    n, F, S, t = SP["n"], SP["F"], SP["S"], SP["t"]
    B.assume(t > 0)
    thr = float(m.mean_var_update_threshold)
    if split:
        # the wrapper must reduce a list of statistics: `split` further addends
        stats = [s]
        n = [n[c] for c in range(C)]
        F = [[F[c, d] for d in range(D)] for c in range(C)]
        S = [[S[c, d] for d in range(D)] for c in range(C)]
        for k in range(int(split)):
            s2, SP2 = sym_stats(B, C, D, "q%d" % k)
            B.assume(SP2["t"] > 0)
            stats.append(s2)
            n = [n[c] + SP2["n"][c] for c in range(C)]
            F = [[F[c][d] + SP2["F"][c, d] for d in range(D)] for c in range(C)]
            S = [[S[c][d] + SP2["S"][c, d] for d in range(D)] for c in range(C)]
            t = t + SP2["t"]
    else:
        stats = [s]
        F = [[F[c, d] for d in range(D)] for c in range(C)]
        S = [[S[c, d] for d in range(D)] for c in range(C)]
        n = [n[c] for c in range(C)]
    ret_machine, avg = gmm.m_step(stats, m)
    o = Outcome()
    # ---- oracle
    if mode == "reynolds":
        al = [n[c] / (n[c] + r) for c in range(C)]
    elif mode in ("alpha-scalar", "alpha-one"):
        al = [a for c in range(C)]
    else:
        al = [av[c] for c in range(C)]
    mu0, v0, w0, fl = UP["mu"], UP["v"], UP["w"], UP["thr"]
    noev = [n[c] < thr for c in range(C)]
    if um:
        mu = [[B.where(noev[c], mu0[c][d], al[c] * (F[c][d] / B.where(noev[c], 1, n[c])) + (1 - al[c]) * mu0[c][d]) for d in range(D)] for c in range(C)]
    else:
        mu = mu0
    o.equal("means", m.means, mu)
    if uw:
        raw = [al[c] * n[c] / t + (1 - al[c]) * w0[c] for c in range(C)]
        tot = total(raw)
        if B.sym and mode != "alpha-one":
            # each un-normalised weight is positive (alpha < 1 and the prior weight is positive):
            # proved per component, then used to show that the normaliser is not zero
            for c in range(C):
                o.lemma("raw-weight-positive-%d" % c, raw[c] > 0)
        o.equal("weights", m.weights, [raw[c] / tot for c in range(C)])
        o.equal("weights-sum-to-one", total([m.weights[c] for c in range(C)]), 1)
    else:
        o.equal("weights", m.weights, w0)
    if uv:
        def var(c, d, second):
            upd = al[c] * (S[c][d] / B.where(noev[c], 1, n[c])) + (1 - al[c]) * second - mu[c][d] * mu[c][d]
            keep = second - mu[c][d] * mu[c][d]
            return B.maximum(fl[c][d], B.where(noev[c], keep, upd))

        want = [[var(c, d, v0[c][d] + mu0[c][d] * mu0[c][d]) for d in range(D)] for c in range(C)]
        defect = [[var(c, d, v0[c][d] + mu0[c][d]) for d in range(D)] for c in range(C)]
        o.equal("variances", m.variances, want, alts=[(KNOWN, defect)])
    else:
        o.equal("variances", m.variances, v0)
    if um and mode == "reynolds":
        # stationarity of the relevance-penalised auxiliary function in the means
        for c in range(C):
            for d in range(D):
                g = F[c][d] - n[c] * m.means[c, d] - r * (m.means[c, d] - mu0[c][d])
                o.claim("penalised-stationary-%d%d" % (c, d), B.where(noev[c], 0, g) == 0 if B.sym else (abs(float(B.where(noev[c], 0, g))) < 1e-9 * (1 + abs(float(F[c][d])))))
    o.claim("returns-same-machine", ret_machine is m)
    o.equal("prior-untouched/means", ubm.means, UP["raw"]["mu"])
    return o


def sc_extreme_r(B, r):
    """very large / vanishing relevance factors on the real code: the prior / the ML estimate"""
    import numpy as np

    gmm = B.mod("gmm")
    ubm = gmm.GMMMachine(2)
    ubm.weights, ubm.means, ubm.variances = np.array([0.4, 0.6]), np.array([[1.0, -2.0], [3.0, 0.5]]), np.array([[1.0, 2.0], [0.5, 1.5]])
    m = gmm.GMMMachine(2, trainer="map", ubm=ubm, update_means=True, update_weights=True, map_relevance_factor=r)
    s = gmm.GMMStats(2, 2)
    s.n, s.sum_px, s.sum_pxx, s.t, s.log_likelihood = np.array([3.0, 5.0]), np.array([[2.0, -7.0], [16.0, 1.0]]), np.array([[9.0, 20.0], [60.0, 9.0]]), 8, -10.0
    gmm.m_step([s], m)
    al = [3.0 / (3.0 + r), 5.0 / (5.0 + r)]
    mu = [[al[c] * s.sum_px[c, d] / s.n[c] + (1 - al[c]) * ubm.means[c, d] for d in range(2)] for c in range(2)]
    raw = [al[c] * s.n[c] / 8 + (1 - al[c]) * ubm.weights[c] for c in range(2)]
    o = Outcome()
    o.equal("extreme-r/means", m.means, mu)
    o.equal("extreme-r/weights", m.weights, [raw[c] / sum(raw) for c in range(2)])
    return o


def job_extreme(P):
    P.probe_real("extreme-relevance", sc_extreme_r, [dict(r=r) for r in (1e-300, 1e-12, 1e12, 1e300, 1e306, 1e307, 1.7e308, float("inf"))], tries=1)


def job_map(P, C, D, mode):
    for um, uv, uw in itertools.product((False, True), repeat=3):
        P.run("%s-m%dv%dw%d" % (mode, um, uv, uw), sc_map, dict(C=C, D=D, um=um, uv=uv, uw=uw, mode=mode), validate=1)
    for k in (1, 2):
        P.run("%s-split%d" % (mode, k + 1), sc_map, dict(C=C, D=D, um=True, uv=False, uw=True, mode=mode, split=k), validate=1)


def jobs(tier):
    out = [("extreme-r", "job_extreme", {})]
    for (C, D) in SIZES[tier]:
        for mode in ("reynolds", "alpha-scalar", "alpha-array", "alpha-one"):
            out.append(("map@C%dD%d-%s" % (C, D, mode), "job_map", dict(C=C, D=D, mode=mode)))
    return out
