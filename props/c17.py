"""C17 - A GMM's likelihood reflects its current visible parameters, whatever its history."""
import copy
import itertools

from symexec.engine import Outcome

from .common import floor_at, floors, make_gmm, o_comp, o_stats, sym_stats, total

FUNCTIONS = ["gmm.GMMMachine.weights/means/variances/variance_thresholds setters and getters", "gmm.GMMMachine.g_norms", "gmm.GMMMachine.log_weights",
             "gmm.ml_gmm_m_step", "gmm.map_gmm_m_step", "gmm.m_step", "gmm.GMMMachine.save", "gmm.GMMMachine.from_hdf5", "gmm.GMMMachine.load",
             "gmm.GMMMachine.__init__ (plain / with ubm / with weights)", "gmm.log_likelihood", "gmm.e_step", "copy.deepcopy of a machine (sklearn BaseEstimator state protocol)"]
STUBS = ["h5py.File: in-memory model with h5py-3 semantics (symexec/h5model.py)", "pickle: copy.deepcopy symbolically (both use the object's __reduce_ex__/__getstate__), a real pickle round trip on the real backend (translator validation / replay)"]
ASSUMPTIONS = ["assigned weights > 0, assigned floors > 0, assigned variances > 0", "histories are bounded: all operation sequences of length <= L from a freshly built machine, with every argument symbolic",
               "reads (scoring) are operations too, so cached normalisers exist in the pre-state"]
EXHAUSTIVE = ["all sequences of length <= L over the operation alphabet (setters with scalar/vector/matrix floors, read, ML steps, deep copy, HDF5 round trip, load into another object)", "ML and MAP machines"]
OUTSIDE = ["in-place mutation of arrays returned by the getters", "sequences longer than L", "sizes beyond (C,D)=(2,1)/(2,2)"]
OPS = ["w", "mu", "v", "thr-scalar", "thr-vector", "thr-matrix", "read", "ml-all", "ml-var", "ml-mean", "deepcopy", "pickle", "h5-new", "h5-load"]
MAP_OPS = ["w", "mu", "v", "thr-vector", "read", "map-all", "map-var", "deepcopy", "h5-new", "init-gaussians"]
L = {"quick": 2, "thorough": 3}


def bounds(tier):
    return dict(sequence_length=L[tier], sequence_length_note="length 3 at (C,D)=(2,1); length 2 at (2,2)", C_D=[(2, 1)] if tier == "quick" else [(2, 1), (2, 2)], operations=OPS, map_operations=MAP_OPS)


def apply_op(B, m, op, i, C, D, ubm=None):
    gmm = B.mod("gmm")
    tag = "%s%d" % (op.replace("-", ""), i)
    if op == "w":
        m.weights = B.arr(tag, (C,), pos=True)
    elif op == "mu":
        m.means = B.arr(tag, (C, D))
    elif op == "v":
        m.variances = B.arr(tag, (C, D), pos=True)
    elif op.startswith("thr-"):
        m.variance_thresholds = floors(B, op[4:], C, D, tag)
    elif op == "read":
        x = B.arr(tag, (1, int(m.means.shape[1])))  # the machine's current feature size
        m.log_likelihood(x)
        m.acc_stats(x)
    elif op in ("ml-all", "ml-var", "ml-mean", "map-all", "map-var"):
        s, SP = sym_stats(B, C, D, tag)
        for c in range(C):
            B.assume(SP["n"][c] > 1e-3)
        sw = dict(all=(True, True, True), var=(False, True, False), mean=(True, False, False))[op.split("-")[1]]
        m.update_means, m.update_variances, m.update_weights = sw
        gmm.m_step([s], m)
    elif op == "deepcopy":
        m = copy.deepcopy(m)
    elif op == "pickle":
        if B.sym:
            m = copy.deepcopy(m)  # same __reduce_ex__/__getstate__ protocol; symbolic scalars cannot be serialised
        else:
            import pickle

            m = pickle.loads(pickle.dumps(m))
    elif op == "h5-new":
        path = B.h5path("m%d.h5" % i)
        m.save(path)
        m = gmm.GMMMachine.from_hdf5(path, ubm=ubm)
    elif op == "h5-load":
        path = B.h5path("m%d.h5" % i)
        m.save(B.h5file(path, "w"))
        other = gmm.GMMMachine(C, trainer=m.trainer, ubm=ubm)
        # the loading object has parameters and (possibly higher) floors of its own
        other.means = B.arr(tag + "om", (C, D))
        other.variance_thresholds = B.real(tag + "ot", pos=True)
        other.variances = B.arr(tag + "ov", (C, D), pos=True)
        other.load(B.h5file(path, "r"))
        m = other
    elif op == "redim":
        # re-dimension the machine by assignment: variances (and floors) of another feature size, then means
        D2 = D + 1
        m.variance_thresholds = B.real(tag + "t", pos=True)
        m.variances = B.arr(tag + "v", (C, D2), pos=True)
        m.means = B.arr(tag + "m", (C, D2))
    elif op == "init-gaussians":
        m.initialize_gaussians()
    else:
        raise ValueError(op)
    return m


def sc_history(B, C, D, ops, kind="ml", ctor="plain"):
    gmm = B.mod("gmm")
    ubm = None
    if kind == "ml":
        if ctor == "weights":
            m = gmm.GMMMachine(C, weights=B.arr("w0", (C,), pos=True))
            m.means = B.arr("mu0", (C, D))
            m.variance_thresholds = B.real("thr0", pos=True)
            m.variances = B.arr("v0", (C, D), pos=True)
        else:
            m, _ = make_gmm(B, C, D, "scalar", pre="i")
    else:
        ubm, _ = make_gmm(B, C, D, "vector", pre="u", simplex=True)
        m = gmm.GMMMachine(C, trainer="map", ubm=ubm, map_relevance_factor=B.real("r", pos=True))
    for i, op in enumerate(ops):
        m = apply_op(B, m, op, i, C, D, ubm)
    # observe (the feature size is whatever the machine now has)
    D = int(m.means.shape[1])
    X = B.arr("x", (2, D))
    w, mu, v, thr = m.weights, m.means, m.variances, m.variance_thresholds
    P = dict(C=C, D=D, w=[w[c] for c in range(C)], mu=[[mu[c, d] for d in range(D)] for c in range(C)], v=[[v[c, d] for d in range(D)] for c in range(C)])
    o = Outcome()
    o.equal("likelihood-reflects-visible-parameters", m.log_likelihood(X), [B.lse(o_comp(B, P, X[i])) for i in range(2)])
    o.equal("components-reflect-visible-parameters", m.log_weighted_likelihood(X), [[o_comp(B, P, X[i])[c] for i in range(2)] for c in range(C)])
    st = m.acc_stats(X)
    ws = o_stats(B, P, X)
    o.equal("statistics-reflect-visible-parameters/n", st.n, ws["n"])
    o.equal("statistics-reflect-visible-parameters/px", st.sum_px, ws["px"])
    import numpy as _np

    tshape = _np.shape(thr)
    for c in range(C):
        for d in range(D):
            t = thr if tshape == () else (thr[d] if len(tshape) == 1 else thr[c, d])
            o.claim("variance-not-below-floor-%d%d" % (c, d), v[c, d] >= t)
    # and equals a freshly built machine with the same visible parameters
    f = gmm.GMMMachine(C)
    f.weights, f.means = B.copy(w), B.copy(mu)
    f.variance_thresholds = B.copy(thr) if tshape != () else thr
    f.variances = B.copy(v)
    o.equal("same-as-fresh-machine", m.log_likelihood(X), f.log_likelihood(X))
    return o


def job_hist(P, C, D, first, kind, ops, length):
    for rest in itertools.product(ops, repeat=length - 1):
        seq = (first,) + rest
        P.run("-".join(seq), sc_history, dict(C=C, D=D, ops=seq, kind=kind), validate=1 if len(set(seq)) == len(seq) else 0)


def sc_default(B, C):
    """a machine built without weights starts from the uniform mixture"""
    gmm = B.mod("gmm")
    m = gmm.GMMMachine(C)
    o = Outcome()
    o.equal("default-weights-uniform", m.weights, [1.0 / C] * C)
    return o


def sc_means_only(B, C, D, steps):
    """a machine that was only given means: `fit` starts from unit variances (the documented
    fall-back), i.e. behaves as the machine whose variances were set to ones explicitly"""
    gmm = B.mod("gmm")
    mu0 = B.arr("mu0", (C, D))
    X = B.arr("x", (2, D))
    kw = dict(max_fitting_steps=steps, convergence_threshold=None, update_means=True, update_variances=True, update_weights=True)
    m = gmm.GMMMachine(C, **kw)
    m.means = B.copy(mu0)
    m.fit(B.copy(X))
    ref = gmm.GMMMachine(C, **kw)
    ref.means = B.copy(mu0)
    ref.variances = B.np.ones((C, D))
    ref.fit(B.copy(X))
    o = Outcome()
    o.same("means-only/means", m.means, ref.means)
    o.same("means-only/variances", m.variances, ref.variances)
    o.same("means-only/weights", m.weights, ref.weights)
    Y = B.arr("y", (1, D))
    o.same("means-only/likelihood", m.log_likelihood(Y), ref.log_likelihood(Y))
    if steps == 0:
        P = dict(C=C, D=D, w=[1.0 / C] * C, mu=[[mu0[c, d] for d in range(D)] for c in range(C)], v=[[1.0] * D for c in range(C)])
        o.equal("means-only/unit-variance-likelihood", m.log_likelihood(Y), [B.lse(o_comp(B, P, Y[0]))])
    return o


def job_redim(P, C, D):
    for pre in ((), ("read",), ("v",), ("thr-vector",)):
        for post in ((), ("read",), ("deepcopy",), ("w",)):
            seq = pre + ("redim",) + post
            P.run("-".join(seq), sc_history, dict(C=C, D=D, ops=seq, kind="ml"), validate=1 if not post else 0)


def job_ctor(P, C, D):
    for c in (1, 2, 3, 5):
        P.run("default-weights-%d" % c, sc_default, dict(C=c), validate=1)
    for op in OPS:
        P.run("ctor-weights-" + op, sc_history, dict(C=C, D=D, ops=(op,), kind="ml", ctor="weights"), validate=0)
    P.run("ctor-map", sc_history, dict(C=C, D=D, ops=(), kind="map"), validate=1)
    P.run("ctor-plain", sc_history, dict(C=C, D=D, ops=(), kind="ml"), validate=1)
    for steps in (0, 1):
        P.run("ctor-means-only-%d" % steps, sc_means_only, dict(C=C, D=D, steps=steps), validate=1)


def jobs(tier):
    out = []
    for (C, D) in bounds(tier)["C_D"]:
        length = L[tier] if (C, D) == (2, 1) else 2  # length-3 histories at the smallest size only
        for first in OPS:
            out.append(("ml@C%dD%d-%s" % (C, D, first), "job_hist", dict(C=C, D=D, first=first, kind="ml", ops=OPS, length=length)))
        for first in MAP_OPS:
            out.append(("map@C%dD%d-%s" % (C, D, first), "job_hist", dict(C=C, D=D, first=first, kind="map", ops=MAP_OPS, length=length)))
        out.append(("ctor@C%dD%d" % (C, D), "job_ctor", dict(C=C, D=D)))
        out.append(("redim@C%dD%d" % (C, D), "job_redim", dict(C=C, D=D)))
    return out
