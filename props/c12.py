"""C12 - Training from statistics is independent of bag partitioning and scheduling."""
from symexec.engine import Outcome

from . import fa
from .common import compositions, make_gmm, total

FUNCTIONS = ["factor_analysis.FactorAnalysisBase._prepare_dask_input", "check_dask_input_samples_per_class", "is_input_dask_nested", "reduce_iadd", "FactorAnalysisBase.initialize",
             "ISVMachine.fit / JFAMachine.fit (bag and delayed branches)", "ISVMachine.e_step/m_step", "JFAMachine.e_step_*/m_step_*/finalize_*", "ivector.IVectorMachine.fit (bag branch, pairwise reduction)",
             "ivector.e_step/m_step", "ivector.IVectorStats.__add__"]
STUBS = ["dask.bag.Bag = list of partitions (to_delayed, map_partitions, persist, optimize); Delayed with _length is iterable", "executor model: task order policy x isolation",
         "i-vector reduction obligations: ivector.e_step replaced by a stub returning fresh symbolic accumulators per partition, ivector.m_step by a recorder",
         "numpy.random: explicit state model (seed -> deterministic draws)", "inv closed form"]
ASSUMPTIONS = ["labels are 0..K-1 (documented for ISV/JFA)", "one EM iteration per phase from symbolic U, V, D: equality of one step from every state gives equality of whole trainings",
               "statistics are symbolic objects (n, F); the equivalent in-memory list is the concatenation of the partitions"]
EXHAUSTIVE = ["all compositions of n <= 4 statistics into partitions (1..n partitions)", "sorted, block-unsorted and interleaved label sequences", "shared / isolated executor, fifo / lifo order", "i-vector: 1..9 partitions"]
OUTSIDE = ["real schedulers", "n > 4 statistics (ISV/JFA)", "rounding"]
LABELS = {"sorted": [0, 0, 1, 1], "blocks-unsorted": [1, 1, 0, 0], "interleaved": [0, 1, 0, 1], "3classes": [2, 0, 1, 0]}


def bounds(tier):
    return dict(statistics=4 if tier == "quick" else 5, partitions="all compositions", ivector_partitions="1..9", C_D_r="ISV (2,1,1), JFA (1,1,1)" + ("" if tier == "quick" else "; on one three-statistic label set also ISV (C,D,rU)=(2,2,1), (1,2,2) and JFA C=2"))


def sc_fa_bag(B, kind, labels, comp, policy, isolated, dims=None):
    C, D, rU, rV = dims or ((2 if kind == "isv" else 1), 1, 1, 1)
    n = len(labels)
    stats = [fa.make_stats(B, C, D, "s%d" % h)[0] for h in range(n)]

    def build():
        m, M = fa.make_fa(B, kind, C, D, rU, rV, em_iterations=1)
        return m

    ref = build()
    ref.fit(list(stats), list(labels))
    parts, pos = [], 0
    for k in comp:
        parts.append(stats[pos : pos + k])
        pos += k
    B.executor(policy, isolated)
    m = build()
    m.fit(B.bag(parts), list(labels))
    o = Outcome()
    o.same("U", m.U, ref.U)
    if kind == "jfa":
        o.same("V", m.V, ref.V)
        o.same("D", m.D, ref.D)
    return o


def sc_iv_bag(B, comp, policy, isolated, update_sigma, iterations=1):
    iv = B.mod("ivector")
    C, D, t = 2, 1, 1
    from .c10 import iv_stats

    n = sum(comp)
    stats = [iv_stats(B, C, D, "s%d" % j, pos=True)[0] for j in range(n)]
    ubm, UP = make_gmm(B, C, D, "scalar", pre="u")

    def train(data):
        m = iv.IVectorMachine(ubm=ubm, dim_t=t, max_iterations=iterations, update_sigma=update_sigma)
        B.np.random.seed(0)
        m.fit(data)
        return m

    snap = [(B.copy(s.n), B.copy(s.sum_px), B.copy(s.sum_pxx)) for s in stats]
    ref = train(list(stats))
    parts, pos = [], 0
    for k in comp:
        parts.append(stats[pos : pos + k])
        pos += k
    B.executor(policy, isolated)
    m = train(B.bag(parts))
    o = Outcome()
    o.same("T", m.T, ref.T)
    o.same("sigma", m.sigma, ref.sigma)
    # the statistics in the bag are the caller's: training leaves them as they were
    for j, s in enumerate(stats):
        o.same("statistics-unchanged-%d/n" % j, s.n, snap[j][0])
        o.same("statistics-unchanged-%d/sum_px" % j, s.sum_px, snap[j][1])
    return o


def sc_iv_reduction(B, nparts):
    """each partition's accumulators enter the M-step exactly once (pairwise tree of any size)"""
    iv = B.mod("ivector")
    C, D, t = 1, 1, 1
    ubm, UP = make_gmm(B, C, D, "scalar", pre="u")
    m = iv.IVectorMachine(ubm=ubm, dim_t=t, max_iterations=1)
    accs = []
    seen = {}

    def e_stub(machine, data):
        k = data[0]
        st = iv.IVectorStats(C, D, t)
        a = B.arr("acc%d" % k, (4,))
        st.nij_sigma_wij2 = B.np.array([[[a[0]]]])
        st.fnorm_sigma_wij = B.np.array([[[a[1]]]])
        st.snormij = B.np.array([[a[2]]])
        st.nij = B.np.array([a[3]])
        return st

    def m_stub(machine, stats):
        seen["sum"] = stats
        return machine

    save = (iv.e_step, iv.m_step)
    iv.e_step, iv.m_step = e_stub, m_stub
    try:
        B.np.random.seed(0)
        m.fit(B.bag([[k] for k in range(nparts)]))
    finally:
        iv.e_step, iv.m_step = save
    o = Outcome()
    acc = [B.arr("acc%d" % k, (4,)) for k in range(nparts)]
    s = seen["sum"]
    o.equal("sum/A", s.nij_sigma_wij2, [[[total([acc[k][0] for k in range(nparts)])]]])
    o.equal("sum/B", s.fnorm_sigma_wij, [[[total([acc[k][1] for k in range(nparts)])]]])
    o.equal("sum/S", s.snormij, [[total([acc[k][2] for k in range(nparts)])]])
    o.equal("sum/N", s.nij, [total([acc[k][3] for k in range(nparts)])])
    return o


EXECS = [("fifo", False), ("lifo", True)]


def job_fa(P, kind, lname, comp, dims=None):
    for pol, iso in EXECS:
        P.run("bag-%s-%s" % (pol, "iso" if iso else "shared"), sc_fa_bag, dict(kind=kind, labels=LABELS[lname], comp=comp, policy=pol, isolated=iso, dims=dims), validate=1)


def job_iv(P, comp):
    for (pol, iso), us in zip(EXECS, (True, False)):
        P.run("ivector-bag-%s-%s" % (pol, "iso" if iso else "shared"), sc_iv_bag, dict(comp=comp, policy=pol, isolated=iso, update_sigma=us), validate=0)
    if len(comp) >= 2 and sum(comp) <= 3:
        # two EM iterations in shared memory: whatever the first iteration did to shared objects shows
        P.run("ivector-bag-2-iterations", sc_iv_bag, dict(comp=comp, policy="fifo", isolated=False, update_sigma=False, iterations=2), validate=0)


def job_red(P):
    for k in range(1, 10):
        P.run("ivector-reduction-%d" % k, sc_iv_reduction, dict(nparts=k), validate=1 if k in (3, 6) else 0)


def jobs(tier):
    out = [("ivector-reduction", "job_red", {})]
    if tier == "thorough":
        LABELS.update({"five-sorted": [0, 0, 1, 1, 1], "five-mixed": [1, 0, 2, 0, 1], "three": [1, 0, 1]})
    for kind in ("isv", "jfa"):
        for lname in LABELS:
            for comp in compositions(len(LABELS[lname])):
                out.append(("%s-%s-%s" % (kind, lname, "+".join(map(str, comp))), "job_fa", dict(kind=kind, lname=lname, comp=comp)))
    if tier == "thorough":
        # larger models on one label set: ISV with two features, JFA with two components
        for kind, dims in (("isv", (2, 2, 1, 1)), ("jfa", (2, 1, 1, 1)), ("isv", (1, 2, 2, 1))):
            for comp in compositions(3):
                out.append(("big-%s-%s-%s" % (kind, "x".join(map(str, dims)), "+".join(map(str, comp))), "job_fa", dict(kind=kind, lname="three", comp=comp, dims=dims)))
    for comp in [(1,), (2,), (1, 1), (2, 1), (1, 1, 1)] + ([(1, 2, 1), (1, 1, 1, 1, 1)] if tier == "thorough" else []):
        out.append(("ivector-%s" % "+".join(map(str, comp)), "job_iv", dict(comp=comp)))
    return out
