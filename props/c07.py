"""C07 - ISV and JFA enrolment climbs to the joint posterior mode of the latent factors."""
from symexec.engine import Outcome

from . import fa
from .common import total

FUNCTIONS = ["factor_analysis.FactorAnalysisBase._sum_n_statistics/_sum_f_statistics", "._compute_uprod/_compute_vprod", ".update_y/_latent_y_per_class/_compute_id_plus_vprod_i/_compute_fn_y_i",
             ".compute_latent_x/_compute_latent_x_per_class/_compute_id_plus_u_prod_ih/_compute_fn_x_ih", ".update_z/_compute_id_plus_d_prod_i/_compute_fn_z_i", ".initialize_XYZ",
             "ISVMachine.enroll", "JFAMachine.enroll", "U/V/D setters"]
STUBS = ["numpy.linalg.inv: closed form (rank 1) / uninterpreted functions with the contract A M = M A = I (rank >= 2)", "numpy.random (RNG model) for the constructor's create_UVD"]
ASSUMPTIONS = ["UBM variances > 0, session counts >= 0 (fractional)", "each block update is compared with the conditional mode written independently; at rank 1 the gradient of the joint log-posterior in that block is proved zero as well",
               "exact block maximisation of a strictly concave quadratic => the joint posterior never decreases and Gauss-Seidel sweeps converge to the unique mode (trusted theorem)",
               "enrol(k) is compared with k explicit sweeps y -> x -> z (JFA) / x -> z (ISV) from zero factors"]
EXHAUSTIVE = ["ISV and JFA", "1 and 2 sessions", "1 and 2 enrolment iterations", "re-enrolment after U/V/D are re-assigned through the setters"]
OUTSIDE = ["ranks > 2, C*D > 4", "the convergence theorem itself", "rounding"]
SIZES = {"quick": [(1, 1, 1, 1), (2, 1, 1, 1), (2, 1, 2, 2)], "thorough": [(1, 1, 1, 1), (2, 1, 1, 1), (2, 1, 2, 2), (2, 2, 2, 1), (2, 2, 2, 2), (1, 3, 3, 2)]}


def bounds(tier):
    return dict(C_D_rU_rV=SIZES[tier], sessions=[1, 2], enrol_iterations=[1, 2])


def _la(rU, rV):
    return "closed" if max(rU, rV or 0) <= 1 else "uf"


def sc_blocks(B, kind, C, D, rU, rV, H):
    """one application of each block update from arbitrary values of the other blocks"""
    m, M = fa.make_fa(B, kind, C, D, rU, rV)
    X, sess = [], []
    for h in range(H):
        s, O = fa.make_stats(B, C, D, "s%d" % h)
        X.append(s)
        sess.append(O)
    y_lab = [0] * H
    n_acc = m._sum_n_statistics(X, y_lab, 1)
    f_acc = m._sum_f_statistics(X, y_lab, 1)
    CD = C * D
    x0 = B.arr("x0", (rU, H))
    z0 = B.arr("z0", (1, CD))
    xs0 = [[x0[r, h] for r in range(rU)] for h in range(H)]
    zv0 = [z0[0, i] for i in range(CD)]
    o = Outcome()
    if kind == "jfa":
        y_prev = B.np.zeros((1, rV))
        ynew = m.update_y(X=X, y=y_lab, n_classes=1, VProd=m._compute_vprod(), latent_x=[B.copy(x0)], latent_y=y_prev, latent_z=B.copy(z0), n_acc=n_acc, f_acc=f_acc)
        ynew = ynew[0]
        want_y = fa.o_y(B, M, sess, xs0, zv0)
        o.equal("y-is-conditional-mode", ynew, want_y)
        if rV == 1 and rU == 1:
            g = fa.grad_y(M, sess, [ynew[r] for r in range(rV)], xs0, zv0)
            o.equal("y-gradient-zero", g, [0] * rV)
        yv = B.arr("y0", (1, rV))
        yl = [yv[0, r] for r in range(rV)]
        lat_y = B.copy(yv)
    else:
        yl, lat_y = None, None
    xnew = m.compute_latent_x(X=X, y=y_lab, n_classes=1, UProd=m._compute_uprod(), latent_y=lat_y, latent_z=B.copy(z0))[0]
    want_x = [fa.o_x(B, M, sess[h], yl, zv0) for h in range(H)]
    o.equal("x-is-conditional-mode", xnew, [[want_x[h][r] for h in range(H)] for r in range(rU)])
    if rU == 1 and (rV or 1) == 1:
        for h in range(H):
            o.equal("x-gradient-zero-%d" % h, fa.grad_x(M, sess[h], yl, [xnew[r, h] for r in range(rU)], zv0), [0] * rU)
    znew = m.update_z(X=X, y=y_lab, latent_x=[B.copy(x0)], latent_y=lat_y, latent_z=B.np.zeros((1, CD)), n_acc=n_acc, f_acc=f_acc)[0]
    want_z = fa.o_z(B, M, sess, yl, xs0)
    o.equal("z-is-conditional-mode", znew, want_z)
    if rU == 1 and (rV or 1) == 1:
        o.equal("z-gradient-zero", fa.grad_z(M, sess, yl, xs0, [znew[i] for i in range(CD)]), [0] * CD)
    return o


def sc_enroll(B, kind, C, D, rU, rV, H, iters, history=None):
    m, M = fa.make_fa(B, kind, C, D, rU, rV, enroll_iterations=iters)
    X, sess = [], []
    for h in range(H):
        s, O = fa.make_stats(B, C, D, "s%d" % h)
        X.append(s)
        sess.append(O)
    if history:
        # use the machine once, then re-assign a subspace through its public setter
        m.enroll(X)
        if history == "U":
            nU = B.arr("nU", (C * D, rU))
            m.U = B.copy(nU)
            M["U"] = [[nU[i, r] for r in range(rU)] for i in range(C * D)]
        elif history == "V":
            nV = B.arr("nV", (C * D, rV))
            m.V = B.copy(nV)
            M["V"] = [[nV[i, r] for r in range(rV)] for i in range(C * D)]
        elif history == "D":
            nD = B.arr("nD", (C * D,))
            m.D = B.copy(nD)
            M["Dv"] = [nD[i] for i in range(C * D)]
        elif history == "ubm-variances":
            nv = B.arr("nv", (C, D), pos=True)
            M["ubm"].variances = B.copy(nv)
            thr = M["UP"]["thr"]
            M["S"] = [B.maximum(thr[c][d], nv[c, d]) for c in range(C) for d in range(D)]
    res = m.enroll(X)
    wy, wxs, wz = fa.o_enroll(B, M, sess, iters)
    o = Outcome()
    if kind == "jfa":
        o.equal("enrolled-y", res[0], wy)
        o.equal("enrolled-z", res[1], wz)
    else:
        o.equal("enrolled-z", res, [wz])
    return o


def sc_mode_observable(B, kind, seed, iters):
    """real code only: with many enrolment iterations the returned factors are the joint posterior
    mode, obtained independently by solving the stationarity linear system with NumPy"""
    import numpy as np

    gmm = B.mod("gmm")
    famod = B.mod("factor_analysis")
    rs = np.random.RandomState(seed)
    C, D, rU, rV, H = 2, 2, 2, 2, 3
    CD = C * D
    ubm = gmm.GMMMachine(C)
    ubm.means = rs.normal(size=(C, D))
    ubm.variances = rs.uniform(0.5, 2.0, (C, D))
    ubm.weights = np.array([0.4, 0.6])
    if kind == "isv":
        m = famod.ISVMachine(r_U=rU, ubm=ubm, enroll_iterations=iters)
    else:
        m = famod.JFAMachine(r_U=rU, r_V=rV, ubm=ubm, enroll_iterations=iters)
        m.V = rs.normal(scale=0.5, size=(CD, rV))
    m.U = rs.normal(scale=0.5, size=(CD, rU))
    m.D = rs.uniform(0.3, 0.9, CD)
    X = []
    for h in range(H):
        s = gmm.GMMStats(C, D)
        s.n = rs.uniform(0.5, 6.0, C)
        s.sum_px = s.n[:, None] * (ubm.means + rs.normal(scale=0.7, size=(C, D)))
        s.t = float(s.n.sum())
        X.append(s)
    res = m.enroll(X)
    # unknowns: y (rV) | x_1..x_H (rU each) | z (CD); stationarity A u = b of the concave quadratic
    S, mean = ubm.variances.flatten(), ubm.means.flatten()
    nV = rV if kind == "jfa" else 0
    n = nV + H * rU + CD
    A, b = np.eye(n), np.zeros(n)
    W = []  # per session design matrix (CD x n)
    for h in range(H):
        M_ = np.zeros((CD, n))
        if nV:
            M_[:, :nV] = m.V
        M_[:, nV + h * rU : nV + (h + 1) * rU] = m.U
        M_[:, nV + H * rU :] = np.diag(m.D)
        W.append(M_)
        Nh = np.repeat(X[h].n, D)
        A += M_.T @ (M_ * (Nh / S)[:, None])
        b += M_.T @ ((X[h].sum_px.flatten() - Nh * mean) / S)
    u = np.linalg.solve(A, b)
    o = Outcome()
    if kind == "jfa":
        o.equal("y-is-joint-mode", res[0], u[:nV])
        o.equal("z-is-joint-mode", res[1], u[nV + H * rU :])
    else:
        o.equal("z-is-joint-mode", np.asarray(res)[0], u[nV + H * rU :])
    return o


def job_observable(P):
    P.probe_real("mode-observable", sc_mode_observable, [dict(kind=k, seed=sd, iters=400) for k in ("isv", "jfa") for sd in (1, 2, 3)], tries=1)


def job_blocks(P, kind, C, D, rU, rV):
    for H in (1, 2):
        P.run("blocks-H%d" % H, sc_blocks, dict(kind=kind, C=C, D=D, rU=rU, rV=rV, H=H), linalg=_la(rU, rV if kind == "jfa" else 0), validate=1)


def job_enroll(P, kind, C, D, rU, rV, H, iters):
    P.run("enroll", sc_enroll, dict(kind=kind, C=C, D=D, rU=rU, rV=rV, H=H, iters=iters), linalg=_la(rU, rV if kind == "jfa" else 0), validate=1)


def job_history(P, kind, C, D, rU, rV):
    for hist in ("U", "D", "ubm-variances") + (("V",) if kind == "jfa" else ()):
        P.run("re-enroll-after-" + hist, sc_enroll, dict(kind=kind, C=C, D=D, rU=rU, rV=rV, H=1, iters=1, history=hist), linalg=_la(rU, rV if kind == "jfa" else 0), validate=1)


def jobs(tier):
    out = [("observable", "job_observable", {})]
    for (C, D, rU, rV) in SIZES[tier]:
        for kind in ("isv", "jfa"):
            tag = "%s@C%dD%drU%drV%d" % (kind, C, D, rU, rV)
            out.append(("blocks-" + tag, "job_blocks", dict(kind=kind, C=C, D=D, rU=rU, rV=rV)))
            for H in (1, 2):
                for it in (1, 2):
                    if it == 2 and (C * D > 2 or rU > 1):
                        continue
                    out.append(("enroll-%s-H%d-it%d" % (tag, H, it), "job_enroll", dict(kind=kind, C=C, D=D, rU=rU, rV=rV, H=H, iters=it)))
    for kind in ("isv", "jfa"):
        out.append(("history-%s" % kind, "job_history", dict(kind=kind, C=2, D=1, rU=1, rV=1)))
    return out
