"""C14 - WCCN/whitening map covariance to identity; WCCN depends only on the partition."""
from symexec.engine import Outcome

from .common import total

FUNCTIONS = ["wccn.WCCN.fit (NumPy and Dask branch, function-local imports)", "wccn.WCCN.transform", "whitening.Whitening.fit (NumPy and Dask branch)", "whitening.Whitening.transform"]
STUBS = ["scipy.linalg.inv / dask.array.linalg.inv: closed form (n <= 2)", "scipy.linalg.cholesky(lower=True): Cholesky-Banachiewicz with sqrt nodes (n <= 2)",
         "numpy.cov / dask.array.cov: (Xc Xc^T)/(N-1)", "dask.array model", "scipy.linalg.pinv: on the assumed full-rank input it is the inverse (same stub as inv)"]
ASSUMPTIONS = ["full rank: the scatter / covariance matrix is positive definite (leading minors > 0)", "each class has at least one sample; labels are integers",
               "D = 1: everything end-to-end in closed form (identity covariance proved). D >= 2 (staged): inverse and Cholesky are uninterpreted functions with their contract (A M = I, L L^T = A, L lower with positive diagonal); proved: the matrix handed to inv is the oracle scatter/covariance, the weights are chol_lower(inv(.)) of it; W^T S W = I then follows by linear algebra (trusted) and is checked numerically on every replay/validation run"]
EXHAUSTIVE = ["label sets {0,1}, {1,0}, {3,7}, {7,3}, {-1,0}, {5,-2} x sample orders (sorted, interleaved, reversed)", "NumPy and Dask input, row chunkings"]
OUTSIDE = ["D > 3", "rank-deficient input (where pinv and inv differ)", "rounding"]
LABELINGS = [
    ("01-sorted", [0, 0, 1, 1]), ("10-sorted", [1, 1, 0, 0]), ("37-sorted", [3, 3, 7, 7]), ("73-interleaved", [7, 3, 7, 3]), ("neg", [-1, 0, 0, -1]),
    ("5m2", [5, -2, -2, 5]), ("unequal", [2, 9, 9, 9, 2]), ("three", [4, 0, -3, 0, 4, -3]), ("one-class", [6, 6, 6]), ("setorder", [-5, 40, 7, 40, -5, 7]),
    # classes with a single sample: they add nothing to the scatter but count as classes
    ("singleton", [3, 8, 3, -1, 8]), ("two-singletons", [12, -3, 12, 5, 12, 40]),
]


def bounds(tier):
    return dict(D=[1, 2] if tier == "quick" else [1, 2, 3], labelings=[l for _, l in LABELINGS], whitening_N=[3, 4] if tier == "quick" else [3, 4, 5])


def o_chol_inv(B, S, D, staged=False):
    """lower Cholesky factor of S^-1: written out for D = 1 (and 2); staged: through the
    inverse/Cholesky contract (uninterpreted functions symbolically, LAPACK on replay)"""
    if staged:
        return B.cholesky_lower(B.inv(S))
    if D == 1:
        return [[B.sqrt(1 / S[0][0])]]
    det = S[0][0] * S[1][1] - S[0][1] * S[1][0]
    i00, i10, i11 = S[1][1] / det, -S[1][0] / det, S[0][0] / det
    l00 = B.sqrt(i00)
    l10 = i10 / l00
    l11 = B.sqrt(i11 - l10 * l10)
    return [[l00, 0], [l10, l11]]


def assume_pd(B, S, D):
    B.assume(S[0][0] > 0)
    if D >= 2:
        B.assume(S[0][0] * S[1][1] - S[0][1] * S[1][0] > 0)
    if D == 3:
        det = (S[0][0] * (S[1][1] * S[2][2] - S[1][2] * S[2][1]) - S[0][1] * (S[1][0] * S[2][2] - S[1][2] * S[2][0]) + S[0][2] * (S[1][0] * S[2][1] - S[1][1] * S[2][0]))
        B.assume(det > 0)


def scatter(X, groups, D, scale):
    S = [[0] * D for _ in range(D)]
    for g in groups:
        m = [total([X[i][d] for i in g]) / len(g) for d in range(D)]
        for i in g:
            for a in range(D):
                for b in range(D):
                    S[a][b] = S[a][b] + (X[i][a] - m[a]) * (X[i][b] - m[b])
    return [[S[a][b] * scale for b in range(D)] for a in range(D)]


def sc_wccn(B, D, labels, dask_chunks=None, staged=False, pinv=False):
    wc = B.mod("wccn")
    N = len(labels)
    X = B.arr("x", (N, D))
    classes = sorted(set(labels))
    K = len(classes)
    groups = [[i for i in range(N) if labels[i] == c] for c in classes]
    S = scatter(X, groups, D, 1.0 / K)
    assume_pd(B, S, D)
    data = B.copy(X) if dask_chunks is None else B.darr(B.copy(X), (dask_chunks, (D,)))
    m = wc.WCCN(pinv=True) if pinv else wc.WCCN()
    m.fit(data, list(labels))
    o = Outcome()
    W = o_chol_inv(B, S, D, staged)
    o.equal("weights-are-chol-of-inverse-scatter", m.weights, W)
    o.equal("input_subtract", m.input_subtract, 0)
    o.equal("input_divide", m.input_divide, 1.0)
    for d in range(D):
        o.claim("positive-diagonal-%d" % d, W[d][d] > 0 if B.sym else float(W[d][d]) > 0)
    if D >= 2:
        o.equal("lower-triangular", m.weights[0][1] if not hasattr(m.weights, "compute") else m.weights.compute()[0][1], 0)
    Wm = m.weights.compute() if hasattr(m.weights, "compute") and not B.sym else (m.weights.__sarr__() if hasattr(m.weights, "__sarr__") else m.weights)
    if D == 1:
        # transformed within-class scatter / K = 1
        o.equal("transformed-scatter-is-identity", Wm[0][0] * S[0][0] * Wm[0][0], 1)
    elif not B.sym:
        # W W^T S = I  (so that W^T S W = I)
        for a in range(D):
            for b in range(D):
                wwt = [[total([Wm[i][k] * Wm[j][k] for k in range(D)]) for j in range(D)] for i in range(D)]
                o.equal("WWt-times-scatter-%d%d" % (a, b), total([wwt[a][k] * S[k][b] for k in range(D)]), 1 if a == b else 0)
    if dask_chunks is None:
        T = m.transform(B.copy(X))
        o.equal("transform", T, [[total([X[i][k] * Wm[k][j] for k in range(D)]) for j in range(D)] for i in range(N)])
    return o


def sc_whitening(B, D, N, dask_chunks=None, staged=False, pinv=False):
    wh = B.mod("whitening")
    X = B.arr("x", (N, D))
    mu = [total([X[i][d] for i in range(N)]) / N for d in range(D)]
    S = [[total([(X[i][a] - mu[a]) * (X[i][b] - mu[b]) for i in range(N)]) / (N - 1) for b in range(D)] for a in range(D)]
    assume_pd(B, S, D)
    data = B.copy(X) if dask_chunks is None else B.darr(B.copy(X), (dask_chunks, (D,)))
    m = wh.Whitening(pinv=True) if pinv else wh.Whitening()
    m.fit(data)
    o = Outcome()
    W = o_chol_inv(B, S, D, staged)
    o.equal("weights-are-chol-of-inverse-covariance", m.weights, W)
    o.equal("input_subtract-is-mean", m.input_subtract, mu)
    for d in range(D):
        o.claim("positive-diagonal-%d" % d, W[d][d] > 0 if B.sym else float(W[d][d]) > 0)
    Wm = m.weights.compute() if hasattr(m.weights, "compute") and not B.sym else (m.weights.__sarr__() if hasattr(m.weights, "__sarr__") else m.weights)
    if dask_chunks is None:
        T = m.transform(B.copy(X))
        want = [[total([(X[i][k] - mu[k]) * Wm[k][j] for k in range(D)]) for j in range(D)] for i in range(N)]
        o.equal("transform", T, want)
        for j in range(D):
            o.equal("transformed-mean-zero-%d" % j, total([T[i][j] for i in range(N)]), 0)
        if D == 1:
            o.equal("transformed-covariance-is-identity", total([T[i][0] * T[i][0] for i in range(N)]) / (N - 1), 1)
    if D >= 2 and not B.sym:
        wwt = [[total([Wm[i][k] * Wm[j][k] for k in range(D)]) for j in range(D)] for i in range(D)]
        for a in range(D):
            for b in range(D):
                o.equal("WWt-times-cov-%d%d" % (a, b), total([wwt[a][k] * S[k][b] for k in range(D)]), 1 if a == b else 0)
    return o


def job_wccn(P, D, name, labels):
    st = D >= 2
    la = "uf" if st else "closed"
    P.run("wccn-" + name, sc_wccn, dict(D=D, labels=labels, staged=st), validate=1, linalg=la)
    if name in ("unequal", "three", "singleton"):
        P.run("wccn-pinv-" + name, sc_wccn, dict(D=D, labels=labels, staged=st, pinv=True), validate=1, linalg=la)
    N = len(labels)
    P.run("wccn-dask-" + name, sc_wccn, dict(D=D, labels=labels, dask_chunks=(1, N - 1), staged=st), validate=1, linalg=la)
    if N >= 4:
        P.run("wccn-dask2-" + name, sc_wccn, dict(D=D, labels=labels, dask_chunks=(2, N - 2), staged=st), validate=0, linalg=la)


def sc_offset(B, which, offset, dask):
    """real code only: data with a large common offset (float cancellation): the transformed
    training data still have identity covariance / within-class scatter"""
    import numpy as np

    rs = np.random.RandomState(5)
    X = rs.normal(size=(40, 3)) @ np.array([[1.0, 0.3, 0.0], [0.0, 0.7, 0.2], [0.0, 0.0, 1.5]]) + offset
    y = [0, 1, 2, 3] * 10
    data = X if not dask else B.darr(X, ((25, 15), (3,)))
    o = Outcome()
    if which == "whitening":
        m = B.mod("whitening").Whitening().fit(data)
        T = np.asarray(m.transform(X))
        o.equal("cov-identity", np.cov(T.T), np.eye(3))
    else:
        m = B.mod("wccn").WCCN().fit(data, y)
        W = np.asarray(m.weights)
        T = (X - X.mean(0)) @ W
        S = np.zeros((3, 3))
        for k in range(4):
            Tk = T[np.array(y) == k]
            Tk = Tk - Tk.mean(0)
            S += Tk.T @ Tk
        o.equal("scatter-identity", S / 4, np.eye(3))
    return o


def job_offset(P):
    plist = [dict(which=w, offset=off, dask=dk) for w in ("whitening", "wccn") for off in (0.0, 1e4, 1e7) for dk in (False, True)]
    P.probe_real("large-offset", sc_offset, plist, tries=1)


def job_whitening(P, D, N):
    st = D >= 2
    la = "uf" if st else "closed"
    P.run("whitening", sc_whitening, dict(D=D, N=N, staged=st), validate=2, linalg=la)
    P.run("whitening-pinv", sc_whitening, dict(D=D, N=N, staged=st, pinv=True), validate=2, linalg=la)
    for ch in ((1, N - 1), (N - 1, 1)):
        P.run("whitening-dask-%d+%d" % ch, sc_whitening, dict(D=D, N=N, dask_chunks=ch, staged=st), validate=1, linalg=la)


def jobs(tier):
    out = [("offsets", "job_offset", {})]
    for D in (1, 2):
        for name, labels in LABELINGS:
            out.append(("wccn@D%d-%s" % (D, name), "job_wccn", dict(D=D, name=name, labels=labels)))
        for N in bounds(tier)["whitening_N"]:
            out.append(("whitening@D%dN%d" % (D, N), "job_whitening", dict(D=D, N=N)))
    if tier == "thorough":
        # D = 3, staged through the inverse / Cholesky contract
        for name, labels in LABELINGS:
            if len(labels) - len(set(labels)) >= 3:
                out.append(("wccn@D3-%s" % name, "job_wccn", dict(D=3, name=name, labels=labels)))
        out.append(("whitening@D3N5", "job_whitening", dict(D=3, N=5)))
    return out
