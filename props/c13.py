"""C13 - Trained models are valid: finite, weights on the simplex, variances above floors."""
import itertools

from symexec.core import SV, PathAbort
from symexec.engine import AssumptionFailed, Outcome

from .c06 import sqd
from .common import floor_at, floors, make_gmm, o_ll, sym_stats, total

FUNCTIONS = ["gmm.ml_gmm_m_step", "gmm.map_gmm_m_step", "gmm.m_step", "gmm.e_step", "gmm.GMMMachine.initialize_gaussians", "gmm.GMMMachine variance setter (floor clamp)",
             "kmeans.e_step", "kmeans.m_step", "kmeans.KMeansMachine.fit", "kmeans.reduce_indices_means_vars", "ivector.e_step", "ivector.m_step", "gmm.log_likelihood (range mode)"]
STUBS = ["non-finiteness model: x/0, log(<=0), sqrt(<0) set a NaN flag that propagates like NumPy's NaN (comparisons False, maximum/where semantics)",
         "range mode exp (underflow below -745, overflow above 709), logaddexp stable", "numpy.linalg.inv/solve closed form (dim_t = 1)", "k_init array init"]
ASSUMPTIONS = ["finite inputs (symbolic reals), variance floors > 0, statistics consistent with data: n_c >= 0, n_c S_c >= F_c^2, and F_c = S_c = 0 when n_c = 0, t = sum n_c > 0",
               "count floor (mean_var_update_threshold) = machine epsilon: ML weights sum to sum_c max(n_c, eps)/t (the documented slack)"]
EXHAUSTIVE = ["8 switch subsets for ML and MAP", "ML step after the floors were re-assigned as a symbolic per-component/per-feature array (raised and lowered entries), variances updated or kept", "all argmin paths of one k-means step including empty clusters and ties", "zero-count components"]
OUTSIDE = ["sizes beyond those listed", "overflow by magnitude outside exp", "rounding"]
K_EMPTY = "C13-kmeans-empty-cluster-nan-centroid"
K_EMPTYV = "C13-kmeans-empty-cluster-nan-variance"
SIZES = {"quick": [(2, 1), (2, 2)], "thorough": [(2, 1), (2, 2), (3, 2)]}


def bounds(tier):
    return dict(C_D=SIZES[tier], kmeans_K_D_N=[(2, 1, 3), (2, 2, 3)] if tier == "quick" else [(2, 1, 3), (2, 2, 3), (3, 1, 3), (2, 2, 4)])


def degenerate_stats(B, C, D):
    s, SP = sym_stats(B, C, D, "s", data_like=True)
    n, F, S = SP["n"], SP["F"], SP["S"]
    B.assume(SP["t"] > 0)
    for c in range(C):
        for d in range(D):
            if B.sym:
                import z3

                B.assume(z3.Implies(n[c].z == 0, z3.And(F[c, d].z == 0, S[c, d].z == 0)))
            elif float(n[c]) == 0:
                B.assume(float(F[c, d]) == 0 and float(S[c, d]) == 0)
    return s, SP


def sc_gmm_mstep(B, C, D, trainer, um, uv, uw, zero=None, alpha=None, refloor=False):
    gmm = B.mod("gmm")
    if trainer == "ml":
        m, MP = make_gmm(B, C, D, "vector", simplex=True, update_means=um, update_variances=uv, update_weights=uw)
    else:
        ubm, MP = make_gmm(B, C, D, "vector", pre="u", simplex=True)
        if alpha is None:
            m = gmm.GMMMachine(C, trainer="map", ubm=ubm, update_means=um, update_variances=uv, update_weights=uw, map_relevance_factor=B.real("r", pos=True))
        else:
            av = B.arr("alpha", (C,), lo=0, hi=1) if alpha == "array" else B.real("alpha", lo=0, hi=1)
            m = gmm.GMMMachine(C, trainer="map", ubm=ubm, update_means=um, update_variances=uv, update_weights=uw, map_relevance_factor=None, map_alpha=B.copy(av) if alpha == "array" else av)
    if refloor:
        # floors re-assigned after the variances exist, as a per-component / per-feature array that
        # may raise some entries and lower others; the trained model must respect the *new* floors
        thr2 = B.arr("thr2", (C, D), pos=True)
        m.variance_thresholds = B.copy(thr2)
        MP["thr"] = [[thr2[c, d] for d in range(D)] for c in range(C)]
    s, SP = degenerate_stats(B, C, D)
    if zero is not None:
        # a component that captured nothing at all
        B.assume(SP["n"][zero] == 0) if B.sym else None
        if not B.sym:
            raise AssumptionFailed()
    o = Outcome()
    if trainer == "map" and uw and B.sym:
        # each un-normalised MAP weight is positive (alpha < 1, prior weight > 0): proved first, then
        # available to show that the normaliser is not zero
        n, t = SP["n"], SP["t"]
        if alpha is None:
            al = [n[c] / (n[c] + m.map_relevance_factor) for c in range(C)]
        elif alpha == "array":
            al = [av[c] for c in range(C)]
            for c in range(C):
                B.assume(av[c] < 1)
        else:
            al = [av for c in range(C)]
            B.assume(av < 1)
        for c in range(C):
            o.lemma("raw-weight-positive-%d" % c, al[c] * n[c] / t + (1 - al[c]) * MP["w"][c] > 0)
    gmm.m_step([s], m)
    o.fin("finite/means", m.means)
    o.fin("finite/variances", m.variances)
    o.fin("finite/weights", m.weights)
    eps = float(m.mean_var_update_threshold)
    for c in range(C):
        o.claim("weight-nonneg-%d" % c, m.weights[c] >= 0)
        for d in range(D):
            o.claim("variance-at-or-above-floor-%d%d" % (c, d), m.variances[c, d] >= MP["thr"][c][d])
            o.claim("variance-positive-%d%d" % (c, d), m.variances[c, d] > 0)
    if uw and trainer == "ml":
        o.equal("weights-sum-documented", total([m.weights[c] for c in range(C)]), total([B.maximum(SP["n"][c], eps) for c in range(C)]) / SP["t"])
    else:
        o.equal("weights-sum-to-one", total([m.weights[c] for c in range(C)]), 1)
    return o


def sc_gmm_estep(B, C, D, N):
    """range mode: statistics and log-likelihoods of arbitrary finite data are finite"""
    m, MP = make_gmm(B, C, D, "vector", simplex=True)
    X = B.arr("x", (N, D))
    s = m.acc_stats(X)
    o = Outcome()
    o.fin("finite/n", s.n)
    o.fin("finite/sum_px", s.sum_px)
    o.fin("finite/sum_pxx", s.sum_pxx)
    o.fin("finite/log_likelihood", s.log_likelihood)
    o.fin("finite/ll-per-sample", m.log_likelihood(X))
    return o


def nan_rows(empty, vals):
    """array whose rows in `empty` are NaN (0/0) and whose other rows are `vals`"""
    import numpy as _np
    import z3

    out = _np.empty((len(vals), len(vals[0])), dtype=object)
    for k in range(len(vals)):
        for d in range(len(vals[0])):
            out[k, d] = SV(z3.RealVal(0), z3.BoolVal(True)) if k in empty else vals[k][d]
    return out


def sc_kmeans(B, K, D, N, via):
    km = B.mod("kmeans")
    X = B.arr("x", (N, D))
    C0 = B.arr("c", (K, D))
    if B.sym:
        lab = [int(v) for v in km.get_closest_centroid_index(km.get_centroids_distance(X, C0))]
    else:
        import numpy as np

        lab = [int(np.argmin([float(sqd(X[i], C0[k], D)) for k in range(K)])) for i in range(N)]
    members = [[i for i in range(N) if lab[i] == k] for k in range(K)]
    empty = [k for k in range(K) if not members[k]]
    o = Outcome()
    o.info["empty"] = empty
    if via == "fit":
        m = km.KMeansMachine(K, init_method=B.copy(C0), max_iter=1)
        m.fit(B.copy(X))
        got = m.centroids_
        # the characterised defect: rows of empty clusters are 0/0, all other rows are the cluster means
        if B.sym and empty:
            o.finite["finite/centroids"] = got
            o.alts["finite/centroids"] = [(K_EMPTY, nan_rows(empty, [[total([X[i][d] for i in members[k]]) / max(len(members[k]), 1) for d in range(D)] for k in range(K)]))]
        else:
            o.fin("finite/centroids", got)
        o.fin("finite/criterion", m.average_min_distance)
    else:
        gmm = B.mod("gmm")
        trainer = km.KMeansMachine(K, init_method=B.copy(C0), max_iter=0)
        g = gmm.GMMMachine(K, k_means_trainer=trainer, max_fitting_steps=0)
        thr = B.real("thr", pos=True)
        g.variance_thresholds = thr
        g.fit(B.copy(X))
        o.fin("finite/gmm-means", g.means)
        if empty:
            o.fin("finite/gmm-weights", g.weights)
            o.finite["finite/gmm-variances"] = g.variances
            if B.sym:
                wv = []
                for k in range(K):
                    row = []
                    for d in range(D):
                        if k in empty:
                            row.append(0)
                        else:
                            mu = total([X[i][d] for i in members[k]]) / len(members[k])
                            row.append(B.maximum(thr, total([X[i][d] * X[i][d] for i in members[k]]) / len(members[k]) - mu * mu))
                    wv.append(row)
                o.alts["finite/gmm-variances"] = [(K_EMPTYV, nan_rows(empty, wv))]
        else:
            o.fin("finite/gmm-variances", g.variances)
            o.fin("finite/gmm-weights", g.weights)
            for k in range(K):
                for d in range(D):
                    o.claim("gmm-variance-at-or-above-floor-%d%d" % (k, d), g.variances[k, d] >= thr)
            o.equal("gmm-weights-sum-to-one", total([g.weights[k] for k in range(K)]), 1)
    return o


def job_gmm(P, C, D, trainer):
    for um, uv, uw in itertools.product((False, True), repeat=3):
        P.run("%s-m%dv%dw%d" % (trainer, um, uv, uw), sc_gmm_mstep, dict(C=C, D=D, trainer=trainer, um=um, uv=uv, uw=uw), validate=1)
    P.run("%s-zero-component" % trainer, sc_gmm_mstep, dict(C=C, D=D, trainer=trainer, um=True, uv=True, uw=True, zero=C - 1), validate=0)
    if trainer == "ml":
        for uv in (False, True):
            P.run("ml-refloored-v%d" % uv, sc_gmm_mstep, dict(C=C, D=D, trainer="ml", um=True, uv=uv, uw=False, refloor=True), validate=1)
    if trainer == "map":
        for al in ("scalar", "array"):
            P.run("map-alpha-%s" % al, sc_gmm_mstep, dict(C=C, D=D, trainer="map", um=True, uv=False, uw=True, alpha=al), validate=1)


def job_estep(P, C, D, N):
    P.run("estep-range", sc_gmm_estep, dict(C=C, D=D, N=N), range_mode=True, validate=1)


def job_kmeans(P, K, D, N, via):
    P.run("kmeans-%s" % via, sc_kmeans, dict(K=K, D=D, N=N, via=via), validate=1)


def job_ivector(P, C, D, t):
    from . import c10

    for us in (True, False):
        for zc in (None, 0, C - 1):
            P.run("ivector-mstep-sigma%d-zero%s" % (us, zc), c10.sc_mstep, dict(C=C, D=D, t=t, update_sigma=us, zero_comp=zc), linalg="closed" if t == 1 else "uf", validate=1)


def jobs(tier):
    out = [("ivector@C2D1t1", "job_ivector", dict(C=2, D=1, t=1)), ("ivector@C2D2t2", "job_ivector", dict(C=2, D=2, t=2))]
    for (C, D) in SIZES[tier]:
        for tr in ("ml", "map"):
            if tr == "map" and C * D > 4:
                continue  # the MAP weight normaliser at C = 3 exceeds the quick/thorough solver budget
            out.append(("gmm-%s@C%dD%d" % (tr, C, D), "job_gmm", dict(C=C, D=D, trainer=tr)))
        if C * D <= 4:
            out.append(("estep@C%dD%dN2" % (C, D), "job_estep", dict(C=C, D=D, N=2)))
    if tier == "thorough":
        out.append(("estep@C2D2N3", "job_estep", dict(C=2, D=2, N=3)))  # (C = 3 in range mode does not decide: not claimed)
    for (K, D, N) in bounds(tier)["kmeans_K_D_N"]:
        for via in ("fit", "gmm-init"):
            out.append(("kmeans-%s@K%dD%dN%d" % (via, K, D, N), "job_kmeans", dict(K=K, D=D, N=N, via=via)))
    return out
