"""C04 - Array training is independent of chunking, task order and worker isolation."""
import itertools

from symexec.engine import Outcome

from . import fa
from .common import compositions, make_gmm, total

FUNCTIONS = ["utils.check_and_persist_dask_input", "utils.array_to_delayed_list", "kmeans.KMeansMachine.fit (Dask branch)", "kmeans.e_step/m_step", "gmm.GMMMachine.fit (Dask branch)", "gmm.e_step/m_step",
             "factor_analysis.FactorAnalysisBase.fit_using_array/initialize/initialize_using_array", "ISVMachine.fit / JFAMachine.fit (Dask branches)", "reduce_iadd",
             "wccn.WCCN.fit / whitening.Whitening.fit (Dask vs NumPy for every row chunking; also against their oracles in C14)", "(cluster variances/weights per chunking: C20)"]
STUBS = ["Dask: array = eager data + chunks; to_delayed = one task input per block; delayed/compute = task graph run by an executor model with a task-order policy (fifo, lifo, seeded random) and"
         " an isolation switch (deep copies of every task's function receiver, inputs and result = serialisation to a worker)", "persist/rebalance: identity", "cdist, k_init(array), inv closed form"]
ASSUMPTIONS = ["one training iteration from an arbitrary symbolic state (explicit k-means centroids / GMM parameters / U,V,D): the next iteration's input and the stopping test depend only on"
               " (parameters, criterion), so equality of one step from every state gives equality of whole trainings and of iteration counts (C03/C06 give the loop)",
               "the model's executor stands for the real schedulers (validated against real Dask with the synchronous scheduler and a cloudpickle round trip per task)"]
EXHAUSTIVE = ["all compositions of the rows into chunks (N <= 4)", "feature-axis chunkings for k-means and GMM", "fifo / lifo / random task orders", "shared and isolated executor", "8 switch subsets for GMM ML"]
OUTSIDE = ["real distributed schedulers", "N > 4", "rounding"]


def bounds(tier):
    return dict(kmeans_K_D_N=(2, 2, 3) if tier == "quick" else (2, 2, 4), gmm_C_D_N=(2, 1, 3), fa="UBM C=1..2, D=1, rank 1, 2 classes x 2 samples", policies=["fifo", "lifo", "rand"])


EXECS = [("fifo", False), ("lifo", True), (("rand", 1), False), (("rand", 2), True)]


def sc_kmeans(B, K, D, N, chunks, policy, isolated):
    km = B.mod("kmeans")
    X = B.arr("x", (N, D))
    C0 = B.arr("c", (K, D))
    ref = km.KMeansMachine(K, init_method=B.copy(C0), max_iter=1).fit(B.copy(X))
    # paths with an empty cluster (NaN centroid on both sides) are C13's
    import numpy as _np

    cnt = _np.bincount(_np.asarray(km.get_closest_centroid_index(km.get_centroids_distance(B.copy(X), B.copy(C0))), dtype=int), minlength=K)
    if (cnt == 0).any():
        from symexec.core import PathAbort
        from symexec.engine import AssumptionFailed

        raise PathAbort("empty cluster") if B.sym else AssumptionFailed()
    B.executor(policy, isolated)
    m = km.KMeansMachine(K, init_method=B.copy(C0), max_iter=1).fit(B.darr(B.copy(X), chunks))
    o = Outcome()
    o.same("centroids", m.centroids_, ref.centroids_)
    o.same("criterion", m.average_min_distance, ref.average_min_distance)
    return o


def sc_gmm(B, C, D, N, chunks, policy, isolated, trainer, um, uv, uw):
    gmm = B.mod("gmm")

    def build():
        if trainer == "ml":
            m, P = make_gmm(B, C, D, "scalar", simplex=True, update_means=um, update_variances=uv, update_weights=uw, max_fitting_steps=1)
        else:
            ubm, P = make_gmm(B, C, D, "scalar", pre="u", simplex=True)
            m = gmm.GMMMachine(C, trainer="map", ubm=ubm, update_means=um, update_variances=uv, update_weights=uw, max_fitting_steps=1, map_relevance_factor=B.real("r", pos=True))
        return m

    X = B.arr("x", (N, D))
    ref = build().fit(B.copy(X))
    B.executor(policy, isolated)
    m = build().fit(B.darr(B.copy(X), chunks))
    o = Outcome()
    o.same("means", m.means, ref.means)
    o.same("variances", m.variances, ref.variances)
    o.same("weights", m.weights, ref.weights)
    return o


def sc_fa(B, kind, C, chunks, labels, policy, isolated):
    D, rU, rV = 1, 1, 1
    N = len(labels)
    X = B.arr("x", (N, D))

    def build(pre):
        m, M = fa.make_fa(B, kind, C, D, rU, rV, em_iterations=1)
        return m

    ref = build("a")
    ref.fit_using_array(B.copy(X), list(labels))
    B.executor(policy, isolated)
    m = build("b")
    m.fit_using_array(B.darr(B.copy(X), chunks), list(labels))
    o = Outcome()
    o.same("U", m.U, ref.U)
    if kind == "jfa":
        o.same("V", m.V, ref.V)
        o.same("D", m.D, ref.D)
    return o


def sc_linear_tx(B, which, chunks, policy, isolated):
    """WCCN / whitening on a Dask array == on the in-memory array, for every row chunking"""
    N, D = 4, 2
    X = B.arr("x", (N, D))
    labels = [0, 1, 0, 1]
    if which == "wccn":
        mod = B.mod("wccn").WCCN
        ref = mod().fit(B.copy(X), list(labels))
        B.executor(policy, isolated)
        m = mod().fit(B.darr(B.copy(X), (chunks, (D,))), list(labels))
    else:
        mod = B.mod("whitening").Whitening
        ref = mod().fit(B.copy(X))
        B.executor(policy, isolated)
        m = mod().fit(B.darr(B.copy(X), (chunks, (D,))))
        o_sub = (m.input_subtract, ref.input_subtract)
    o = Outcome()
    o.same("weights", m.weights, ref.weights)
    if which == "whitening":
        o.same("input_subtract", o_sub[0], o_sub[1])
    return o


def job_linear_tx(P, which):
    for comp in compositions(4):
        pol, iso = EXECS[len(comp) % 2]
        P.run("%s-%s" % (which, "+".join(map(str, comp))), sc_linear_tx, dict(which=which, chunks=comp, policy=pol, isolated=iso), linalg="uf", validate=1 if len(comp) == 2 else 0)


def job_kmeans(P, K, D, N, chunks):
    for pol, iso in EXECS[:2]:
        P.run("kmeans-%s-%s" % (pol if isinstance(pol, str) else "rand%d" % pol[1], "iso" if iso else "shared"), sc_kmeans, dict(K=K, D=D, N=N, chunks=chunks, policy=pol, isolated=iso), validate=1)


def job_gmm(P, C, D, N, chunks, trainer):
    sw = list(itertools.product((False, True), repeat=3)) if trainer == "ml" else [(True, False, False), (True, True, True)]
    for i, (um, uv, uw) in enumerate(sw):
        pol, iso = EXECS[i % len(EXECS)]
        P.run("gmm-%s-m%dv%dw%d" % (trainer, um, uv, uw), sc_gmm, dict(C=C, D=D, N=N, chunks=chunks, policy=pol, isolated=iso, trainer=trainer, um=um, uv=uv, uw=uw), validate=1 if i == 0 else 0)


def job_fa(P, kind, C, chunks, labels):
    for pol, iso in EXECS[:2]:
        P.run("fa-%s-%s" % (pol, "iso" if iso else "shared"), sc_fa, dict(kind=kind, C=C, chunks=chunks, labels=labels, policy=pol, isolated=iso), validate=1)


def jobs(tier):
    out = []
    K, D, N = bounds(tier)["kmeans_K_D_N"]
    for comp in compositions(N):
        out.append(("kmeans-rows-%s" % "+".join(map(str, comp)), "job_kmeans", dict(K=K, D=D, N=N, chunks=(comp, (D,)))))
    out.append(("kmeans-features", "job_kmeans", dict(K=K, D=D, N=N, chunks=((N,), (1,) * D))))
    out.append(("kmeans-both", "job_kmeans", dict(K=K, D=D, N=N, chunks=((1, N - 1), (1,) * D))))
    C, D, N = bounds(tier)["gmm_C_D_N"]
    for comp in compositions(N):
        for tr in ("ml", "map"):
            out.append(("gmm-%s-rows-%s" % (tr, "+".join(map(str, comp))), "job_gmm", dict(C=C, D=D, N=N, chunks=(comp, (D,)), trainer=tr)))
    out.append(("gmm-ml-features", "job_gmm", dict(C=2, D=2, N=2, chunks=((2,), (1, 1)), trainer="ml")))
    out.append(("gmm-map-features", "job_gmm", dict(C=2, D=2, N=2, chunks=((1, 1), (1, 1)), trainer="map")))
    for which in ("wccn", "whitening"):
        out.append(("lineartx-" + which, "job_linear_tx", dict(which=which)))
    for kind in ("isv", "jfa"):
        for labels in ([0, 0, 1, 1], [1, 0, 1, 0], [1, 1, 0, 1]):
            for comp in ((4,), (2, 2), (1, 3), (1, 1, 1, 1)):
                out.append(("%s-%s-%s" % (kind, "".join(map(str, labels)), "+".join(map(str, comp))), "job_fa", dict(kind=kind, C=1, chunks=(comp, (1,)), labels=labels)))
    return out
