"""C15 - Training is equivariant, scoring invariant, under affine feature rescaling/shift."""
import itertools
from fractions import Fraction

from symexec import axioms as AX
from symexec.core import _z
from symexec.engine import AssumptionFailed, Outcome

from . import fa
from .common import make_gmm, sym_stats, total

FUNCTIONS = ["gmm.log_weighted_likelihood/log_likelihood", "gmm.ml_gmm_m_step", "gmm.map_gmm_m_step", "gmm.m_step", "linear_scoring.linear_scoring",
             "factor_analysis estimate_x / ISVMachine.enroll,score / JFAMachine.enroll,score", "ivector.IVectorMachine.project", "kmeans.e_step/m_step/KMeansMachine.fit"]
STUBS = ["inv closed form (rank 1)", "cdist", "k_init(array)"]
ASSUMPTIONS = ["metamorphic: the same real code is run on (data, parameters) and on the transformed (a*data+b, transformed parameters); results must be the transformed results",
               "scales a are concrete per scenario (enumerated, including negative and widely different magnitudes), shifts b and everything else symbolic",
               "GMM: statistics transform as moments (n, aF+bn, a^2 S + 2abF + b^2 n); log-likelihood shifts by -1/2 sum ln a^2 (instances of ln(a^2 v) = ln a^2 + ln v supplied)",
               "FA: m' = a m + b, U' = aU, V' = aV, D' = aD, Sigma' = a^2 Sigma", "k-means: x -> s R x + t with concrete rotation (3/5, 4/5) and scale s, symbolic translation"]
EXHAUSTIVE = ["8 switch subsets (ML)", "MAP switch subsets", "scale vectors " + str([(2, -3), (0.5, 10), (-1, 1)])]
OUTSIDE = ["symbolic scales (the products a^2 * floor make the floor comparisons non-linear)", "rounding", "sizes beyond (C,D)=(2,2)"]
SCALES = {"quick": [(2.0, -3.0), (0.5, 10.0)], "thorough": [(2.0, -3.0), (0.5, 10.0), (-1.0, 1.0), (0.0009765625, 1024.0)]}
KNOWN = "C05-map-variance-prior-mean-not-squared"


def bounds(tier):
    return dict(C_D=(2, 2), scales=SCALES[tier])


def floors_inactive(B, P, C, D):
    """variances strictly above their floors (scaling preserves this), so that max(floor, v) is v"""
    for c in range(C):
        for d in range(D):
            B.assume(P["raw"]["v"][c, d] > P["thr"][c][d])


def tx_machine(B, gmm, C, D, P, a, b, **kw):
    """the machine with transformed parameters (weights same, means a*mu+b, variances a^2 v, floors a^2 thr)"""
    m = gmm.GMMMachine(C, **kw)
    raw = P["raw"]
    m.weights = B.copy(raw["w"]) if not isinstance(raw["w"], list) else B.np.array(raw["w"])
    m.means = B.np.array([[a[d] * P["mu"][c][d] + b[d] for d in range(D)] for c in range(C)])
    m.variance_thresholds = B.np.array([[a[d] * a[d] * P["thr"][c][d] for d in range(D)] for c in range(C)])
    m.variances = B.np.array([[a[d] * a[d] * raw["v"][c, d] for d in range(D)] for c in range(C)])
    return m


def sc_loglik(B, C, D, a):
    gmm = B.mod("gmm")
    m, P = make_gmm(B, C, D, "matrix")
    P["raw"]["w"] = P["raw"]["w"]
    b = B.arr("b", (D,))
    m2 = tx_machine(B, gmm, C, D, P, a, b)
    x = B.arr("x", (1, D))
    x2 = B.np.array([[a[d] * x[0, d] + b[d] for d in range(D)]])
    o = Outcome()
    shift = total([B.ln(a[d] * a[d]) for d in range(D)]) * 0.5
    o.equal("component-loglik-shifts-by-minus-sum-ln|a|", m2.log_weighted_likelihood(x2), [[m.log_weighted_likelihood(x)[c, 0] - shift] for c in range(C)])
    if B.sym:
        for c in range(C):
            for d in range(D):
                o.extra_axioms.append(AX.ln_prod(_z(a[d] * a[d]), _z(P["v"][c][d])))
    return o


def tx_stats(B, gmm, C, D, SP, a, b, ll):
    s = gmm.GMMStats(C, D)
    n, F, S = SP["n"], SP["F"], SP["S"]
    s.n = B.copy(n)
    s.sum_px = B.np.array([[a[d] * F[c, d] + b[d] * n[c] for d in range(D)] for c in range(C)])
    s.sum_pxx = B.np.array([[a[d] * a[d] * S[c, d] + 2 * a[d] * b[d] * F[c, d] + b[d] * b[d] * n[c] for d in range(D)] for c in range(C)])
    s.t = SP["t"]
    s.log_likelihood = ll
    return s


def sc_mstep(B, C, D, a, trainer, um, uv, uw, count_floor=None):
    gmm = B.mod("gmm")
    b = B.arr("b", (D,))
    kw = dict(update_means=um, update_variances=uv, update_weights=uw)
    if count_floor is not None:
        kw["mean_var_update_threshold"] = count_floor
    if trainer == "ml":
        m, P = make_gmm(B, C, D, "matrix", simplex=True, **kw)
        m2 = tx_machine(B, gmm, C, D, P, a, b, **kw)
    else:
        r = B.real("r", pos=True)
        ubm, P = make_gmm(B, C, D, "matrix", pre="u", simplex=True)
        ubm2 = tx_machine(B, gmm, C, D, P, a, b)
        m = gmm.GMMMachine(C, trainer="map", ubm=ubm, map_relevance_factor=r, **kw)
        m2 = gmm.GMMMachine(C, trainer="map", ubm=ubm2, map_relevance_factor=r, **kw)
    s, SP = sym_stats(B, C, D, "s", data_like=True)
    B.assume(SP["t"] > 0)
    if count_floor is None:
        for c in range(C):
            B.assume(SP["n"][c] > 1e-3)
    else:
        # components may have (almost) no evidence: counts anywhere in [0, inf), also below the count floor
        for c in range(C):
            for d in range(D):
                if B.sym:
                    import z3

                    B.assume(z3.Implies(SP["n"][c].z == 0, z3.And(SP["F"][c, d].z == 0, SP["S"][c, d].z == 0)))
                elif float(SP["n"][c]) == 0:
                    B.assume(float(SP["F"][c, d]) == 0 and float(SP["S"][c, d]) == 0)
    s2 = tx_stats(B, gmm, C, D, SP, a, b, s.log_likelihood)
    gmm.m_step([s], m)
    gmm.m_step([s2], m2)
    o = Outcome()
    o.equal("weights-unchanged", m2.weights, m.weights)
    o.equal("means-follow", m2.means, [[a[d] * m.means[c, d] + b[d] for d in range(D)] for c in range(C)])
    want_v = [[a[d] * a[d] * m.variances[c, d] for d in range(D)] for c in range(C)]
    if trainer == "map" and uv:
        # the known C05 defect adds the prior mean unsquared: its transformed-run value is characterised
        mu0, v0, thr = P["mu"], P["v"], P["thr"]
        n, F, S = SP["n"], SP["F"], SP["S"]
        al = [n[c] / (n[c] + r) for c in range(C)]
        alt = []
        for c in range(C):
            row = []
            for d in range(D):
                S2 = a[d] * a[d] * S[c, d] + 2 * a[d] * b[d] * F[c, d] + b[d] * b[d] * n[c]
                second = a[d] * a[d] * v0[c][d] + (a[d] * mu0[c][d] + b[d])
                row.append(B.maximum(a[d] * a[d] * thr[c][d], al[c] * S2 / n[c] + (1 - al[c]) * second - m2.means[c, d] * m2.means[c, d]))
            alt.append(row)
        o.equal("variances-scale-by-a2", m2.variances, want_v, alts=[(KNOWN, alt)])
    else:
        o.equal("variances-scale-by-a2", m2.variances, want_v)
    return o


def sc_linear(B, C, D, a):
    gmm = B.mod("gmm")
    ls = B.mod("linear_scoring").linear_scoring
    b = B.arr("b", (D,))
    ubm, P = make_gmm(B, C, D, "matrix", pre="u")
    floors_inactive(B, P, C, D)
    ubm2 = tx_machine(B, gmm, C, D, P, a, b)
    mm = B.arr("m", (C, D))
    mm2 = B.np.array([[a[d] * mm[c, d] + b[d] for d in range(D)] for c in range(C)])
    s, SP = sym_stats(B, C, D, "s", data_like=False)
    B.assume(SP["t"] >= 1)
    s2 = tx_stats(B, gmm, C, D, SP, a, b, 0)
    off = B.arr("o", (C, D))
    off2 = B.np.array([[a[d] * off[c, d] for d in range(D)] for c in range(C)])
    o = Outcome()
    for norm in (False, True):
        o.equal("linear-score-invariant-%s" % norm, ls(B.copy(mm2), ubm2, [s2], B.copy(off2), norm), ls(B.copy(mm), ubm, [s], B.copy(off), norm))
    return o


def sc_fa(B, kind, C, D, a):
    b = B.arr("b", (D,))
    m, M = fa.make_fa(B, kind, C, D, 1, 1, enroll_iterations=2)
    gmm = B.mod("gmm")
    famod = B.mod("factor_analysis")
    M["UP"]["thr"] = [[M["UP"]["raw"]["thr"] for d in range(D)] for c in range(C)]
    floors_inactive(B, M["UP"], C, D)
    ubm2 = tx_machine(B, gmm, C, D, M["UP"], a, b)
    av = [a[d] for c in range(C) for d in range(D)]
    CD = C * D
    if kind == "isv":
        m2 = famod.ISVMachine(r_U=1, ubm=ubm2, enroll_iterations=2)
    else:
        m2 = famod.JFAMachine(r_U=1, r_V=1, ubm=ubm2, enroll_iterations=2)
        m2.V = B.np.array([[av[i] * M["V"][i][0]] for i in range(CD)])
    m2.U = B.np.array([[av[i] * M["U"][i][0]] for i in range(CD)])
    m2.D = B.np.array([av[i] * M["Dv"][i] for i in range(CD)])
    s, O = fa.make_stats(B, C, D, "s")
    B.assume(O["t"] >= 1)
    s2 = gmm.GMMStats(C, D)
    s2.n = B.copy(s.n)
    s2.sum_px = B.np.array([[a[d] * s.sum_px[c, d] + b[d] * s.n[c] for d in range(D)] for c in range(C)])
    s2.sum_pxx = B.np.zeros((C, D))
    s2.t = s.t
    o = Outcome()
    o.equal("channel-factor-invariant", m2.estimate_x([s2]), m.estimate_x([s]))
    e1, e2 = m.enroll([s]), m2.enroll([s2])
    if kind == "jfa":
        o.equal("speaker-factor-invariant", e2[0], e1[0])
        o.equal("offset-factor-invariant", e2[1], e1[1])
        model1, model2 = [e1[0], e1[1]], [e2[0], e2[1]]
    else:
        o.equal("offset-factor-invariant", e2, e1)
        model1, model2 = e1[0], e2[0]
    p, Op = fa.make_stats(B, C, D, "p")
    B.assume(Op["t"] >= 1)
    p2 = gmm.GMMStats(C, D)
    p2.n = B.copy(p.n)
    p2.sum_px = B.np.array([[a[d] * p.sum_px[c, d] + b[d] * p.n[c] for d in range(D)] for c in range(C)])
    p2.sum_pxx = B.np.zeros((C, D))
    p2.t = p.t
    zz = B.arr("z", (CD,))
    if kind == "jfa":
        yy = B.arr("y", (1,))
        o.equal("score-invariant", m2.score([B.copy(yy), B.copy(zz)], [p2]), m.score([B.copy(yy), B.copy(zz)], [p]))
    else:
        o.equal("score-invariant", m2.score(B.copy(zz), [p2]), m.score(B.copy(zz), [p]))
    return o


def sc_ivector(B, C, D, a):
    from .c10 import iv_stats, make_iv

    b = B.arr("b", (D,))
    m, M = make_iv(B, C, D, 1)
    iv = B.mod("ivector")
    gmm = B.mod("gmm")
    ubm2 = gmm.GMMMachine(C)
    ubm2.means = B.np.array([[a[d] * M["m"][c][d] + b[d] for d in range(D)] for c in range(C)])
    ubm2.variances = B.np.ones((C, D))
    m2 = iv.IVectorMachine(ubm=ubm2, dim_t=1)
    m2.T = B.np.array([[[a[d] * M["T"][c][d][0]] for d in range(D)] for c in range(C)])
    m2.sigma = B.np.array([[a[d] * a[d] * M["sg"][c][d] for d in range(D)] for c in range(C)])
    m2.dim_c, m2.dim_d = C, D
    s, st = iv_stats(B, C, D, "s")
    s2 = gmm.GMMStats(C, D)
    s2.n = B.copy(s.n)
    s2.sum_px = B.np.array([[a[d] * st["F"][c][d] + b[d] * st["n"][c] for d in range(D)] for c in range(C)])
    o = Outcome()
    o.equal("ivector-invariant", m2.project(s2), m.project(s))
    return o


ROT = (Fraction(3, 5), Fraction(4, 5))


def sc_kmeans(B, N, scale):
    km = B.mod("kmeans")
    K, D = 2, 2
    X = B.arr("x", (N, D))
    C0 = B.arr("c", (K, D))
    t = B.arr("t", (D,))
    c_, s_ = (ROT[0], ROT[1]) if B.sym else (float(ROT[0]), float(ROT[1]))

    def tx(p):
        return [scale * (c_ * p[0] - s_ * p[1]) + t[0], scale * (s_ * p[0] + c_ * p[1]) + t[1]]

    X2 = B.np.array([tx(X[i]) for i in range(N)])
    C2 = B.np.array([tx(C0[k]) for k in range(K)])
    m1 = km.KMeansMachine(K, init_method=B.copy(C0), max_iter=1).fit(B.copy(X))
    m2 = km.KMeansMachine(K, init_method=B.copy(C2), max_iter=1).fit(B.copy(X2))
    o = Outcome()
    o.same("centroids-follow", m2.centroids_, [tx(m1.centroids_[k]) for k in range(K)])
    o.same("criterion-scales", m2.average_min_distance, scale * scale * m1.average_min_distance)
    return o


def job_gmm(P, a):
    C, D = 2, 2
    P.run("loglik", sc_loglik, dict(C=C, D=D, a=a), validate=1)
    for um, uv, uw in itertools.product((False, True), repeat=3):
        P.run("ml-m%dv%dw%d" % (um, uv, uw), sc_mstep, dict(C=C, D=D, a=a, trainer="ml", um=um, uv=uv, uw=uw), validate=1 if (um, uv, uw) == (True, True, True) else 0)
    for um, uv, uw in ((True, False, False), (True, True, True), (False, True, False)):
        P.run("map-m%dv%dw%d" % (um, uv, uw), sc_mstep, dict(C=C, D=D, a=a, trainer="map", um=um, uv=uv, uw=uw), validate=1 if uv is False else 0)
    for tr in ("ml", "map"):
        P.run("%s-means-low-evidence" % tr, sc_mstep, dict(C=C, D=D, a=a, trainer=tr, um=True, uv=False, uw=False, count_floor=0.05), validate=1)


def sc_loop_scale(B, K, lam):
    """the k-means / GMM stopping rules depend on the relative change only: scaling the criterion
    (i.e. the units of the features) must not change the number of iterations"""
    from .c03 import LoopStub

    km = B.mod("kmeans")
    seq = [B.real("a%d" % (k + 1), pos=True) for k in range(K)]
    thr = B.real("thr", nonneg=True)
    tags = []
    for sc in (1.0, lam):
        m = km.KMeansMachine(2, init_method=B.np.zeros((2, 1)), max_iter=K, convergence_threshold=thr)
        with LoopStub(B, "kmeans", [sc * v for v in seq], "kmeans", shape=(2, 1)):
            try:
                m.fit(B.np.zeros((4, 1)))
            except StopIteration:
                raise AssumptionFailed()
        tags.append(m.centroids_[0, 0])
    o = Outcome()
    o.equal("same-number-of-iterations-after-rescaling", tags[1], tags[0])
    return o


def job_loop(P):
    for lam in (1e-10, 1e6):
        P.run("kmeans-loop-scale-%g" % lam, sc_loop_scale, dict(K=3, lam=lam), validate=1)


def job_scoring(P, a):
    P.run("linear", sc_linear, dict(C=2, D=2, a=a), validate=1)
    P.run("ivector", sc_ivector, dict(C=2, D=2, a=a), validate=1)
    for kind in ("isv", "jfa"):
        P.run("fa-" + kind, sc_fa, dict(kind=kind, C=1, D=2, a=a), validate=1)


def job_kmeans(P, scale):
    P.run("kmeans", sc_kmeans, dict(N=3, scale=scale), validate=1)


def jobs(tier):
    out = []
    for a in SCALES[tier]:
        tag = "a=%g,%g" % a
        out.append(("gmm-" + tag, "job_gmm", dict(a=a)))
        out.append(("scoring-" + tag, "job_scoring", dict(a=a)))
    for sc in (2.0, 0.5):
        out.append(("kmeans-s%g" % sc, "job_kmeans", dict(scale=sc)))
    out.append(("loop-scale", "job_loop", {}))
    return out
