"""C16 - A trained model is a function of the labelled sample multiset and the seed only."""
import itertools

from symexec.engine import Outcome

from . import fa
from .c04 import EXECS
from .common import make_gmm, total

FUNCTIONS = ["gmm.GMMMachine.fit / e_step / m_step", "kmeans.KMeansMachine.fit / initialize", "wccn.WCCN.fit", "factor_analysis.FactorAnalysisBase.create_UVD", "ISVMachine.fit / JFAMachine.fit (list and Dask branches)",
             "gmm.GMMMachine.initialize_gaussians (seed forwarded to k-means)"]
STUBS = ["numpy.random global generator: explicit state model - the state is a named value G (any history), seed(s) sets it to Seed(s), each draw is a fresh symbol indexed by (state, draw number)",
         "dask_ml k_init: uninterpreted function of (data, n_clusters, init, integer seed, max_iter, oversampling): deterministic for an integer seed (its documented contract)", "inv closed form; cdist"]
ASSUMPTIONS = ["integer random_state (None / RandomState objects are outside the claim)", "one training step from a given state for the permutation clauses (one step from every state => all iterations)",
               "'up to rounding' is read as equality over the reals"]
EXHAUSTIVE = ["all permutations of N = 3 rows (GMM, k-means), of 4 labelled samples (WCCN), of 3 statistics (ISV/JFA)", "all permutations of class ids 0..K-1 (K <= 3)", "two different global RNG states x two fits in a row"]
OUTSIDE = ["dask_ml's own determinism", "random_state=None", "i-vector (it has no random_state and is not in the property's list)"]


def bounds(tier):
    return dict(N=3, classes=3 if tier == "thorough" else 2)


def sc_gmm_perm(B, perm, trainer):
    gmm = B.mod("gmm")
    C, D, N = 2, 1, len(perm)
    X = B.arr("x", (N, D))

    def build():
        if trainer == "ml":
            return make_gmm(B, C, D, "scalar", simplex=True, update_means=True, update_variances=True, update_weights=True, max_fitting_steps=1)[0]
        ubm, P = make_gmm(B, C, D, "scalar", pre="u", simplex=True)
        return gmm.GMMMachine(C, trainer="map", ubm=ubm, update_means=True, update_weights=True, max_fitting_steps=1, map_relevance_factor=B.real("r", pos=True))

    m1 = build().fit(B.copy(X))
    m2 = build().fit(B.np.array([[X[i, d] for d in range(D)] for i in perm]))
    o = Outcome()
    o.same("means", m2.means, m1.means)
    o.same("variances", m2.variances, m1.variances)
    o.same("weights", m2.weights, m1.weights)
    return o


def sc_kmeans_perm(B, perm):
    km = B.mod("kmeans")
    K, D, N = 2, 2, len(perm)
    X = B.arr("x", (N, D))
    C0 = B.arr("c", (K, D))
    m1 = km.KMeansMachine(K, init_method=B.copy(C0), max_iter=1).fit(B.copy(X))
    m2 = km.KMeansMachine(K, init_method=B.copy(C0), max_iter=1).fit(B.np.array([[X[i, d] for d in range(D)] for i in perm]))
    o = Outcome()
    o.same("centroids", m2.centroids_, m1.centroids_)
    o.same("criterion", m2.average_min_distance, m1.average_min_distance)
    return o


def sc_kmeans_twice(B):
    """training twice with the same configuration objects (same init array, same data array)
    gives the same model: nothing of the first training leaks into the second"""
    km = B.mod("kmeans")
    K, D, N = 2, 1, 3
    X = B.arr("x", (N, D))
    C0 = B.arr("c", (K, D))
    init, data = B.copy(C0), B.copy(X)
    m1 = km.KMeansMachine(K, init_method=init, max_iter=1, convergence_threshold=None).fit(data)
    first = B.copy(m1.centroids_)
    m2 = km.KMeansMachine(K, init_method=init, max_iter=1, convergence_threshold=None).fit(data)
    o = Outcome()
    o.same("second-training-equals-first", m2.centroids_, first)
    o.same("refit-of-the-same-estimator", km.KMeansMachine.fit(m1, data).centroids_, first)
    return o


def sc_wccn_perm(B, perm, relabel):
    wc = B.mod("wccn")
    labels = [0, 1, 0, 1]
    D, N = 1, 4
    X = B.arr("x", (N, D))
    m1 = wc.WCCN().fit(B.copy(X), list(labels))
    m2 = wc.WCCN().fit(B.np.array([[X[i, d] for d in range(D)] for i in perm]), [relabel[labels[i]] for i in perm])
    o = Outcome()
    o.same("weights", m2.weights, m1.weights)
    return o


def sc_fa_perm(B, kind, perm, relabel, dask):
    C, D, rU, rV = 1, 1, 1, 1
    labels = [0, 1, 1] if len(relabel) == 2 else [0, 1, 2]
    n = len(labels)
    stats = [fa.make_stats(B, C, D, "s%d" % h)[0] for h in range(n)]

    def build():
        return fa.make_fa(B, kind, C, D, rU, rV, em_iterations=1)[0]

    ref = build()
    ref.fit(list(stats), list(labels))
    m = build()
    pst, pl = [stats[i] for i in perm], [relabel[labels[i]] for i in perm]
    if dask:
        B.executor("lifo", True)
        m.fit(B.bag([pst[:1], pst[1:]]), pl)
    else:
        m.fit(pst, pl)
    o = Outcome()
    o.same("U", m.U, ref.U)
    if kind == "jfa":
        o.same("V", m.V, ref.V)
        o.same("D", m.D, ref.D)
    return o


def sc_seed_fa(B, kind, seed):
    """construction with an integer random_state: U, V, D do not depend on the global generator's state
    nor on what was built before"""
    famod = B.mod("factor_analysis")
    C, D = 1, 2
    res = []
    for g in (1, 2):
        B.rng_state(g)
        ubm, UP = make_gmm(B, C, D, "scalar", pre="u%d" % g) if g == 1 else (res[0][1], None)
        for rep in range(2):
            if kind == "isv":
                m = famod.ISVMachine(r_U=2, ubm=ubm, random_state=seed)
            else:
                m = famod.JFAMachine(r_U=2, r_V=1, ubm=ubm, random_state=seed)
            res.append((m, ubm))
    o = Outcome()
    for i, (m, _) in enumerate(res[1:], 1):
        o.equal("U-%d" % i, m.U, res[0][0].U)
        o.equal("D-%d" % i, m.D, res[0][0].D)
        if kind == "jfa":
            o.equal("V-%d" % i, m.V, res[0][0].V)
    return o


def sc_seed_kmeans(B, method, seed):
    """k-means / k-means-initialised GMM forward the configured integer seed to the initialiser and
    give the same centroids whatever the global generator's state"""
    km = B.mod("kmeans")
    gmm = B.mod("gmm")
    N, D, K = (4, 1, 2) if B.sym else (30, 2, 2)
    if B.sym:
        X = B.arr("x", (N, D))
    else:
        import numpy as np

        rs = np.random.RandomState(7)
        X = np.vstack([rs.normal(-3, 1, (N // 2, D)), rs.normal(3, 1, (N // 2, D))])
    cents, gm = [], []
    for g in (1, 2):
        B.rng_state(g)
        m = km.KMeansMachine(K, init_method=method, random_state=seed, max_iter=0)
        m.fit(B.copy(X))
        cents.append(m.centroids_)
        B.rng_state(g + 5)
        gg = gmm.GMMMachine(K, random_state=seed, max_fitting_steps=0, k_means_trainer=km.KMeansMachine(K, init_method=method, random_state=seed, max_iter=0))
        gg.fit(B.copy(X))
        gm.append(gg.means)
    o = Outcome()
    o.same("kmeans-centroids-independent-of-global-rng", cents[1], cents[0])
    o.same("gmm-init-independent-of-global-rng", gm[1], gm[0])
    if B.sym:
        from symexec import loader

        o.claim("seed-forwarded-to-initialiser", all(c["random_state"] == seed for c in loader.KINIT_LOG) and len(loader.KINIT_LOG) == 4)
    return o


def sc_seed_default_gmm(B, seed):
    """a GMM without explicit k-means trainer builds one seeded with its own random_state"""
    gmm = B.mod("gmm")
    seen = {}

    class Stop(Exception):
        pass

    class Recorder:
        def __init__(self, n_clusters, *a, **k):
            seen["n"] = n_clusters
            seen["random_state"] = k.get("random_state", a[3] if len(a) > 3 else "default")
            raise Stop()

    saved = gmm.KMeansMachine
    gmm.KMeansMachine = Recorder
    try:
        g = gmm.GMMMachine(2, random_state=seed, max_fitting_steps=0)
        try:
            g.fit(B.np.zeros((4, 1)))
        except Stop:
            pass
    finally:
        gmm.KMeansMachine = saved
    o = Outcome()
    o.claim("gmm-seed-forwarded-to-default-kmeans", seen.get("random_state") == seed and seen.get("n") == 2)
    return o


def job_perm(P):
    for perm in itertools.permutations(range(3)):
        if perm == (0, 1, 2):
            continue
        tag = "".join(map(str, perm))
        for tr in ("ml", "map"):
            P.run("gmm-%s-%s" % (tr, tag), sc_gmm_perm, dict(perm=perm, trainer=tr), validate=1 if tag == "201" else 0)
        P.run("kmeans-" + tag, sc_kmeans_perm, dict(perm=perm), validate=1 if tag == "120" else 0)


def job_twice(P):
    P.run("kmeans-twice", sc_kmeans_twice, {}, validate=1)


def job_wccn(P):
    for perm in ((0, 1, 2, 3), (3, 2, 1, 0), (1, 0, 3, 2), (2, 0, 3, 1)):
        for relabel in ({0: 0, 1: 1}, {0: 1, 1: 0}, {0: 7, 1: -2}):
            if perm == (0, 1, 2, 3) and relabel == {0: 0, 1: 1}:
                continue
            P.run("wccn-%s-%s" % ("".join(map(str, perm)), "".join(str(relabel[k]) for k in (0, 1))), sc_wccn_perm, dict(perm=perm, relabel=relabel), validate=1)


def job_fa(P, kind, K, perms):
    relabels = [dict(zip(range(K), p)) for p in itertools.permutations(range(K))]
    for perm in perms:
        for rl in relabels:
            for dask in (False, True):
                if perm == (0, 1, 2) and rl == relabels[0] and not dask:
                    continue
                P.run("%s-%s-%s-%s" % (kind, "".join(map(str, perm)), "".join(str(rl[k]) for k in range(K)), "bag" if dask else "list"), sc_fa_perm, dict(kind=kind, perm=perm, relabel=rl, dask=dask), validate=1 if perm == (2, 0, 1) else 0)


def sc_no_ubm(B):
    """estimators can be configured without a UBM (it is trained later, from the arrays)"""
    famod = B.mod("factor_analysis")
    a = famod.ISVMachine(r_U=2, ubm=None, ubm_kwargs=dict(n_gaussians=2))
    b = famod.JFAMachine(r_U=2, r_V=1, ubm=None, ubm_kwargs=dict(n_gaussians=2))
    o = Outcome()
    o.claim("constructed-without-ubm", a.ubm is None and b.ubm is None and a.r_U == 2 and b.r_V == 1)
    return o


def sc_self_trained_ubm(B, kind, noise_seed, untrained):
    """real code only: an estimator that trains its own UBM (`ubm=None` + `ubm_kwargs`, or an untrained
    GMMMachine) from the arrays gives the model of the explicit two-stage training with the same
    settings, whatever the global RNG state, and the same model when run a second time"""
    import numpy as np

    famod, gmm = B.mod("factor_analysis"), B.mod("gmm")
    rs = np.random.RandomState(3)
    X = np.vstack([rs.normal(loc=c, scale=0.4, size=(6, 2)) for c in ((0, 0), (4, 1), (-3, 5))])
    y = [0, 1, 2] * 6
    kw = dict(n_gaussians=2, max_fitting_steps=2, convergence_threshold=None, random_state=4)

    def make(ubm, **extra):
        if kind == "isv":
            return famod.ISVMachine(r_U=1, em_iterations=2, random_state=7, ubm=ubm, **extra)
        return famod.JFAMachine(r_U=1, r_V=1, em_iterations=2, random_state=7, ubm=ubm, **extra)

    def self_trained():
        np.random.seed(noise_seed)
        m = make(gmm.GMMMachine(**kw)) if untrained else make(None, ubm_kwargs=dict(kw))
        m.fit_using_array(X.copy(), list(y))
        return m

    a, b = self_trained(), self_trained()
    np.random.seed(99)
    ubm = gmm.GMMMachine(**kw)
    ubm.fit(X.copy())
    ref = make(ubm)
    ref.fit_using_array(X.copy(), list(y))
    o = Outcome()
    o.equal("self-trained-ubm/means", a.ubm.means, ubm.means)
    o.equal("self-trained-ubm/variances", a.ubm.variances, ubm.variances)
    o.equal("self-trained-ubm/U", a.U, ref.U)
    o.equal("self-trained-ubm/D", a.D, ref.D)
    o.equal("self-trained-ubm/twice-U", a.U, b.U)
    if kind == "jfa":
        o.equal("self-trained-ubm/V", a.V, ref.V)
    return o


def sc_shared_kwargs(B):
    """two estimators configured with the SAME ubm_kwargs dict but different seeds: each builds its
    UBM from the caller's settings only; nothing of the first training leaks into the second, and
    the caller's dict is not modified"""
    famod = B.mod("factor_analysis")
    seen = []

    class Stop(Exception):
        pass

    class Recorder:
        _means = None

        def __init__(self, *a, **k):
            seen.append(dict(k))
            raise Stop()

    shared = dict(n_gaussians=2, max_fitting_steps=3)
    before = dict(shared)
    saved = famod.GMMMachine
    famod.GMMMachine = Recorder
    try:
        for seed in (1, 2):
            m = famod.ISVMachine(r_U=1, ubm=None, ubm_kwargs=shared, random_state=seed)
            try:
                m.initialize_using_array(B.np.zeros((4, 1)))
            except Stop:
                pass
    finally:
        famod.GMMMachine = saved
    o = Outcome()
    o.claim("callers-dict-unchanged", shared == before)
    o.claim("second-ubm-built-from-its-own-settings", len(seen) == 2 and {k: v for k, v in seen[1].items() if k != "random_state"} == before and seen[1].get("random_state", 2) == 2 and seen[0].get("random_state", 1) == 1)
    return o


def job_seed(P):
    P.run("construct-without-ubm", sc_no_ubm, {}, validate=1)
    P.run("shared-ubm-kwargs", sc_shared_kwargs, {}, validate=1)
    P.probe_real("self-trained-ubm", sc_self_trained_ubm, [dict(kind=k, noise_seed=n, untrained=u) for k in ("isv", "jfa") for n in (1, 2) for u in (False, True)], tries=1)
    for kind in ("isv", "jfa"):
        for seed in (0, 5):
            P.run("seed-%s-%d" % (kind, seed), sc_seed_fa, dict(kind=kind, seed=seed), validate=0)
    for method in ("k-means||", "k-means++", "random"):
        P.run("seed-kmeans-%s" % method, sc_seed_kmeans, dict(method=method, seed=3), validate=0)
    P.run("seed-gmm-default", sc_seed_default_gmm, dict(seed=11), validate=0)


def jobs(tier):
    out = [("perm", "job_perm", {}), ("wccn", "job_wccn", {}), ("seed", "job_seed", {}), ("twice", "job_twice", {})]
    for kind in ("isv", "jfa"):
        for K in ((2,) if tier == "quick" else (2, 3)):
            for perm in itertools.permutations(range(3)):
                out.append(("fa-%s-K%d-%s" % (kind, K, "".join(map(str, perm))), "job_fa", dict(kind=kind, K=K, perms=[perm])))
    return out
