"""C01 - GMM log-likelihood is the log of a normalised diagonal-Gaussian mixture density."""
from .common import compositions, make_gmm, o_comp, o_ll, total

FUNCTIONS = [
    "gmm.GMMMachine.__init__", "gmm.GMMMachine.weights/means/variances/variance_thresholds (setters)",
    "gmm.GMMMachine.g_norms", "gmm.log_weighted_likelihood", "gmm.reduce_loglikelihood", "gmm.logaddexp_reduce",
    "gmm.log_likelihood", "gmm.e_step (log_likelihood field)", "gmm.GMMMachine.acc_stats",
]
STUBS = ["numpy.logaddexp.reduce = ln(sum ex(.)) (numerically stable contract: finite for finite inputs)",
         "dask.array.Array / dask.array.reduction: block model (symexec/daskmodel.py)",
         "range mode: numpy.exp(t) = 0 for t < -745, non-finite for t > 709"]
ASSUMPTIONS = ["weights > 0, variance floors > 0, variances > 0 (then clamped to the floor by the setter)",
               "real arithmetic: float rounding is outside the claim",
               "Gaussian normalisation integral: the constant -D/2 ln(2 pi) - 1/2 sum ln var is the textbook one (trusted)"]
EXHAUSTIVE = ["all compositions of the N rows into Dask chunks", "floor shapes scalar/(D,)/(C,D)"]
OUTSIDE = ["sizes beyond the listed (C,D,N)", "rounding error of logaddexp", "feature-axis chunking of log_likelihood input"]

SIZES = {"quick": [(1, 1, 1), (2, 2, 2), (3, 1, 2)], "thorough": [(1, 1, 1), (2, 2, 2), (3, 1, 2), (2, 3, 2), (3, 3, 3), (4, 1, 2), (3, 2, 4)]}


def bounds(tier):
    return dict(sizes_C_D_N=SIZES[tier], floors=["scalar", "vector", "matrix"], dask_chunkings="all compositions of N")


def sc_density(B, C, D, N, floor, order="floors-first"):
    m, P = make_gmm(B, C, D, floor, order=order)
    X = B.arr("x", (N, D))
    from symexec.engine import Outcome

    o = Outcome()
    comp = [o_comp(B, P, X[i]) for i in range(N)]
    want_lwl = [[comp[i][c] for i in range(N)] for c in range(C)]
    o.equal("component-density", m.log_weighted_likelihood(X), want_lwl)
    want_ll = [B.lse(comp[i]) for i in range(N)]
    o.equal("mixture-density", m.log_likelihood(X), want_ll)
    o.equal("lse-of-components", m.log_likelihood(X), [B.lse([m.log_weighted_likelihood(X)[c, i] for c in range(C)]) for i in range(N)])
    # single vector == same vector inside the batch
    o.equal("single-vs-batch", [m.log_likelihood(X[i])[0] for i in range(N)], want_ll)
    o.equal("single-shape", list(m.log_likelihood(X[0]).shape), [1])
    # per-component values of a bare 1-D sample: one column, same numbers as inside the batch
    o.equal("single-vector-components", [m.log_weighted_likelihood(X[i]) for i in range(N)], [[[comp[i][c]] for c in range(C)] for i in range(N)])
    o.equal("acc_stats-total", m.acc_stats(X).log_likelihood, total(want_ll))
    o.equal("module-level-fn", B.mod("gmm").log_likelihood(X, m), want_ll)
    return o


def sc_dask(B, C, D, N, chunks):
    m, P = make_gmm(B, C, D, "matrix")
    X = B.arr("x", (N, D))
    from symexec.engine import Outcome

    o = Outcome()
    want_ll = [o_ll(B, P, X[i]) for i in range(N)]
    dX = B.darr(X, (chunks, (D,)))
    o.equal("dask-batch", m.log_likelihood(dX), want_ll)
    o.equal("dask-components", m.log_weighted_likelihood(dX), [[o_comp(B, P, X[i])[c] for i in range(N)] for c in range(C)])
    return o


def sc_tail(B, C, D, N):
    """range mode: exp underflows below -745; the reported value must stay finite for all finite x"""
    m, P = make_gmm(B, C, D, "matrix")
    X = B.arr("x", (N, D))
    from symexec.engine import Outcome

    o = Outcome()
    o.fin("tail-finite", m.log_likelihood(X))
    o.fin("tail-finite-stats-ll", m.acc_stats(X).log_likelihood)
    o.equal("tail-value", m.log_likelihood(X), [o_ll(B, P, X[i]) for i in range(N)])
    return o


SETTINGS = {
    # (weights, means, variances) with mixed feature scales; floors 1e-5
    "unit": lambda C, D: ([1.0 / C] * C, [[float(c)] * D for c in range(C)], [[1.0] * D for _ in range(C)]),
    "mixed-scales": lambda C, D: ([(c + 1.0) / (C * (C + 1) / 2) for c in range(C)], [[(-1.0) ** c * 10.0 ** d for d in range(D)] for c in range(C)], [[10.0 ** (4 * d - 2 * c) for d in range(D)] for c in range(C)]),
}


def sc_tail_concrete(B, C, D, N, setting):
    """concrete parameters (mixed scales), symbolic samples, range mode: finite and correct for all x"""
    from symexec.engine import Outcome

    gmm = B.mod("gmm")
    w, mu, v = SETTINGS[setting](C, D)
    m = gmm.GMMMachine(C)
    m.weights = B.np.array(w)
    m.means = B.np.array(mu)
    m.variance_thresholds = 1e-5
    m.variances = B.np.array(v)
    P = dict(C=C, D=D, w=w, mu=mu, v=[[max(1e-5, x) for x in row] for row in v])
    X = B.arr("x", (N, D))
    o = Outcome()
    ll = m.log_likelihood(X)
    o.fin("tail-finite", ll)
    o.equal("tail-value", ll, [o_ll(B, P, X[i]) for i in range(N)])
    o.fin("tail-finite-stats-ll", m.acc_stats(X).log_likelihood)
    return o


def job_tail_concrete(P, C, D, N, setting):
    P.run("tail-concrete", sc_tail_concrete, dict(C=C, D=D, N=N, setting=setting), range_mode=True)


def sc_batch_only(B, C, D, N):
    m, P = make_gmm(B, C, D, "matrix")
    X = B.arr("x", (N, D))
    from symexec.engine import Outcome

    o = Outcome()
    o.equal("mixture-density", m.log_likelihood(X), [o_ll(B, P, X[i]) for i in range(N)])
    return o


def sc_extreme(B, chunks=None):
    """large mean^2/variance ratios (float cancellation matters); real backend only"""
    import numpy as np
    from symexec.engine import Outcome

    gmm = B.mod("gmm")
    m = gmm.GMMMachine(2)
    mu = np.array([[1.0e6, -3.0], [1.0e6 + 2.0e-3, 5.0]])
    v = np.array([[1.0e-6, 2.0], [4.0e-6, 0.5]])
    m.weights, m.means, m.variance_thresholds, m.variances = np.array([0.3, 0.7]), mu, 1e-12, v
    X = np.array([[1.0e6 + 1.0e-3, -2.0], [1.0e6 - 2.0e-3, 4.0], [1.0e6 + 3.0e-3, 0.5]])
    P = dict(C=2, D=2, w=[0.3, 0.7], mu=mu.tolist(), v=v.tolist())
    data = X if chunks is None else B.darr(X, (chunks, (2,)))
    o = Outcome()
    o.equal("extreme-scales", m.log_likelihood(data), [o_ll(B, P, X[i]) for i in range(3)])
    o.equal("extreme-scales-stats", m.acc_stats(data).log_likelihood, sum(o_ll(B, P, X[i]) for i in range(3)))
    return o


def sc_highdim(B, D, scale):
    """many features whose variances are all tiny / huge: each variance is far from the floor and
    from the float range, their product is not (real backend only)"""
    import numpy as np
    from symexec.engine import Outcome

    gmm = B.mod("gmm")
    rs = np.random.RandomState(D)
    v = np.vstack([scale * (1.0 + rs.rand(D)), (1.0 / scale) * (1.0 + rs.rand(D))])
    mu = rs.normal(size=(2, D))
    m = gmm.GMMMachine(2)
    m.weights, m.means, m.variance_thresholds, m.variances = np.array([0.4, 0.6]), mu, min(scale, 1.0 / scale) * 1e-3, v
    X = np.vstack([mu[0] + np.sqrt(v[0]) * rs.normal(size=D), mu[1] + np.sqrt(v[1]) * rs.normal(size=D), mu[0] + 0.5 * np.sqrt(v[0])])
    P = dict(C=2, D=D, w=[0.4, 0.6], mu=mu.tolist(), v=v.tolist())
    o = Outcome()
    ll = m.log_likelihood(X)
    o.fin("highdim-finite", ll)
    o.equal("highdim-value", ll, [o_ll(B, P, X[i]) for i in range(3)])
    st = m.acc_stats(X)
    o.equal("highdim-resp-sum", float(np.sum(st.n)), 3.0)
    return o


def job_boundary(P):
    """witness search beyond the symbolic bound: batch sizes around the integer constants of the
    source; extreme parameter scales (float cancellation) for NumPy and Dask input"""
    P.probe_real("extreme-scales", sc_extreme, [dict(chunks=None), dict(chunks=(3,)), dict(chunks=(1, 2))], tries=1)
    P.probe_real("high-dimensional-scales", sc_highdim, [dict(D=D, scale=sc) for D in (24, 60) for sc in (1e-7, 1e-13, 1e7, 1e13)], tries=1)
    from symexec import loader

    sizes = sorted({n for c in loader.int_constants() for n in (c - 1, c, c + 1, 2 * c + 1) if 8 <= n <= 5000})
    P.probe_real("boundary-batch", sc_batch_only, [dict(C=2, D=2, N=n) for n in sizes], tries=1)


def job_density(P, C, D, N, floor):
    P.run("density", sc_density, dict(C=C, D=D, N=N, floor=floor))
    for order in ("floors-last", "floors-after-use"):
        P.run("density-" + order, sc_density, dict(C=C, D=D, N=N, floor=floor, order=order), validate=1)


def job_dask(P, C, D, N, chunks):
    P.run("dask", sc_dask, dict(C=C, D=D, N=N, chunks=chunks))


def job_tail(P, C, D, N):
    P.run("tail", sc_tail, dict(C=C, D=D, N=N), range_mode=True)


def jobs(tier):
    out = []
    for (C, D, N) in SIZES[tier]:
        for fl in ("scalar", "vector", "matrix"):
            out.append(("density@C%dD%dN%d-%s" % (C, D, N, fl), "job_density", dict(C=C, D=D, N=N, floor=fl)))
        out.append(("tail@C%dD%dN%d" % (C, D, N), "job_tail", dict(C=C, D=D, N=N)))
        for st in SETTINGS:
            out.append(("tailc@C%dD%dN%d-%s" % (C, D, N, st), "job_tail_concrete", dict(C=C, D=D, N=N, setting=st)))
    out.append(("boundary", "job_boundary", {}))
    dn = [(2, 2, 3), (2, 1, 4)] if tier == "quick" else [(2, 2, 3), (2, 1, 4), (3, 2, 4), (2, 2, 5)]
    for (C, D, N) in dn:
        for comp in compositions(N):
            out.append(("dask@C%dD%dN%d-%s" % (C, D, N, "+".join(map(str, comp))), "job_dask", dict(C=C, D=D, N=N, chunks=comp)))
    return out
