"""C20 - K-means assigns to the nearest centroid; cluster-derived GMM init is exact."""
from symexec.core import PathAbort
from symexec.engine import AssumptionFailed, Outcome

from .c06 import sqd
from .common import compositions, floors, floor_at, total

FUNCTIONS = ["kmeans.get_centroids_distance (NumPy and Dask branch)", "kmeans.get_closest_centroid_index", "kmeans.KMeansMachine.transform", "kmeans.KMeansMachine.predict",
             "kmeans.accumulate_indices_means_vars", "kmeans.reduce_indices_means_vars", "kmeans.KMeansMachine.get_variances_and_weights_for_each_cluster",
             "gmm.GMMMachine.initialize_gaussians", "gmm.GMMMachine.fit (max_fitting_steps=0)"]
STUBS = ["cdist sqeuclidean = sum_d (a_d-b_d)^2", "k_init with array init returns the array", "Dask array/executor model"]
ASSUMPTIONS = ["ties resolved as numpy.argmin does (first index); the claim only requires *a* nearest centroid", "the variance clause is claimed for non-empty clusters (the weight clause for all, empty clusters weigh 0); GMM initialisation: every cluster non-empty",
               "real arithmetic: an algebraically equal |x|^2-2xm+|m|^2 rewrite is indistinguishable here (cancellation at large offsets is a float-only effect, outside the claim)"]
EXHAUSTIVE = ["all argmin paths", "all row chunkings of the Dask input", "single sample and batch"]
OUTSIDE = ["K,D,N beyond those listed", "rounding / cancellation (probed concretely on the real code with offsets 1e3..1e8, as witness search only)"]
SIZES = {"quick": [(2, 1, 3), (2, 2, 3)], "thorough": [(2, 1, 3), (2, 2, 3), (3, 1, 3), (2, 2, 4)]}


def bounds(tier):
    return dict(K_D_N=SIZES[tier])


def _labels(B, X, C0, K, D, N):
    if B.sym:
        km = B.mod("kmeans")
        return [int(v) for v in km.get_closest_centroid_index(km.get_centroids_distance(X, C0))]
    import numpy as np

    return [int(np.argmin([float(sqd(X[i], C0[k], D)) for k in range(K)])) for i in range(N)]


def sc_assign(B, K, D, N, chunks=None, offset=0.0):
    km = B.mod("kmeans")
    X = B.arr("x", (N, D))
    C0 = B.arr("c", (K, D))
    if offset:
        # large common offset (float cancellation matters): only meaningful on the real backend
        X = X + offset
        C0 = C0 + offset
    m = km.KMeansMachine(K)
    m.centroids_ = B.copy(C0)
    data = B.copy(X) if chunks is None else B.darr(B.copy(X), (chunks, (D,)))
    o = Outcome()
    dist = m.transform(data)
    want = [[sqd(X[i], C0[k], D) for i in range(N)] for k in range(K)]
    o.equal("distances-sqeuclidean", dist, want)
    if chunks is None:
        for i in range(N):
            o.equal("single-sample-%d" % i, m.transform(X[i]), [[want[k][i]] for k in range(K)])
        o.equal("means-alias", m.means, C0)
    for k in range(K):
        for i in range(N):
            o.claim("nonneg-%d-%d" % (k, i), want[k][i] >= 0)
    lab = m.predict(data)
    if hasattr(lab, "compute"):
        lab = lab.compute()
    lab = [int(v) for v in (lab.__sarr__() if hasattr(lab, "__sarr__") else lab)]
    o.equal("label-count", len(lab), N)
    for i in range(N):
        for k in range(K):
            o.claim("label-nearest-%d-%d" % (i, k), want[lab[i]][i] <= want[k][i])
    if chunks is None:
        for i in range(N):
            l1 = m.predict(X[i])
            o.equal("single-label-%d" % i, [int(v) for v in l1], [lab[i]])
    return o


def sc_varw(B, K, D, N, chunks=None, via_gmm=False, floor="scalar"):
    km = B.mod("kmeans")
    X = B.arr("x", (N, D))
    C0 = B.arr("c", (K, D))
    lab = _labels(B, X, C0, K, D, N)
    members = [[i for i in range(N) if lab[i] == k] for k in range(K)]
    empty = [k for k in range(K) if not members[k]]
    if empty and via_gmm:
        if B.sym:
            raise PathAbort("empty cluster: C13")
        raise AssumptionFailed()
    data = B.copy(X) if chunks is None else B.darr(B.copy(X), (chunks, (D,)))
    if chunks is not None:
        B.executor("fifo", False)
    o = Outcome()
    want_w = [len(members[k]) / N for k in range(K)]
    want_v = []
    for k in range(K):
        row = []
        for d in range(D):
            if k in empty:
                row.append(None)  # no samples: the variance clause does not apply (0/0 is C13's subject)
                continue
            mu = total([X[i][d] for i in members[k]]) / len(members[k])
            row.append(total([(X[i][d] - mu) * (X[i][d] - mu) for i in members[k]]) / len(members[k]))
        want_v.append(row)
    if not via_gmm:
        m = km.KMeansMachine(K)
        m.centroids_ = B.copy(C0)
        v, w = m.get_variances_and_weights_for_each_cluster(data)
        o.equal("weights-are-fractions", w, want_w)
        o.equal("weights-sum-to-one", total([w[k] for k in range(K)]), 1)
        for k in range(K):
            if k in empty:
                continue
            o.equal("variances-biased-%d" % k, v[k], want_v[k])
            for d in range(D):
                o.claim("variance-nonneg-%d%d" % (k, d), v[k][d] >= 0 if B.sym else float(v[k][d]) >= -1e-12)
    else:
        gmm = B.mod("gmm")
        # k-means with explicit init and zero iterations keeps C0 as centroids
        trainer = km.KMeansMachine(K, init_method=B.copy(C0), max_iter=0)
        g = gmm.GMMMachine(K, k_means_trainer=trainer, max_fitting_steps=0)
        thr = floors(B, floor, K, D, "thr")
        g.variance_thresholds = thr
        g.fit(data)
        o.equal("gmm-means-are-centroids", g.means, C0)
        o.equal("gmm-weights", g.weights, want_w)
        o.equal("gmm-variances-floored", g.variances, [[B.maximum(floor_at(thr, floor, k, d), want_v[k][d]) for d in range(D)] for k in range(K)])
    return o


def job_assign(P, K, D, N):
    P.run("assign", sc_assign, dict(K=K, D=D, N=N), validate=2)


def sc_big(B, K, N):
    """real code only: sizes far beyond the symbolic bound (block-wise code paths, many clusters)"""
    import numpy as np

    km = B.mod("kmeans")
    rs = np.random.RandomState(K + N)
    cents = rs.normal(scale=20.0, size=(K, 2))
    lab = rs.randint(0, K, size=N)
    lab[:K] = np.arange(K)  # every cluster non-empty
    X = cents[lab] + rs.normal(scale=0.01, size=(N, 2))
    m = km.KMeansMachine(K)
    m.means = cents  # the `means` alias of `centroids_`
    o0 = np.array_equal(m.centroids_, cents) and np.array_equal(m.means, cents)
    o = Outcome()
    o.claim("means-alias", bool(o0))
    o.equal("labels", m.predict(X), lab)
    o.equal("distances-shape", list(np.shape(m.transform(X))), [K, N])
    v, w = m.get_variances_and_weights_for_each_cluster(X)
    o.equal("weights", w, np.bincount(lab, minlength=K) / N)
    wv = np.array([X[lab == k].var(axis=0) for k in range(K)])
    o.equal("variances", v, wv)
    g = B.mod("gmm").GMMMachine(K, k_means_trainer=km.KMeansMachine(K, init_method=cents, max_iter=0), max_fitting_steps=0)
    g.fit(X)
    o.equal("gmm-init-weights", g.weights, np.bincount(lab, minlength=K) / N)
    return o


def sc_dtypes(B, cdtype, xdtype, chunks=None):
    """real code only: centroids / data given in other dtypes (integer centroids with fractional
    data, float32): labels, weights and variances are those of the same numbers in float64"""
    import numpy as np

    km = B.mod("kmeans")
    cents = np.array([[0, 0], [10, 4], [-6, 8]])
    rs = np.random.RandomState(11)
    lab = np.array([0, 1, 2, 1, 0, 2, 2, 1, 1])
    X = (cents[lab] + rs.uniform(-1.5, 1.5, size=(9, 2))).astype(xdtype)
    X64 = X.astype(float)
    m = km.KMeansMachine(3)
    m.centroids_ = cents.astype(cdtype)
    data = X if chunks is None else B.darr(X, (chunks, (2,)))
    o = Outcome()
    o.equal("labels", m.predict(X), lab)
    v, w = m.get_variances_and_weights_for_each_cluster(data)
    o.equal("weights", w, np.bincount(lab, minlength=3) / 9)
    o.equal("variances", v, np.array([X64[lab == k].var(axis=0) for k in range(3)]))
    g = B.mod("gmm").GMMMachine(3, k_means_trainer=km.KMeansMachine(3, init_method=cents.astype(cdtype), max_iter=0), max_fitting_steps=0)
    g.fit(data)
    o.equal("gmm-init-variances", g.variances, np.maximum(np.array([X64[lab == k].var(axis=0) for k in range(3)]), g.variance_thresholds))
    o.equal("gmm-init-means", g.means, cents)
    return o


def job_dtypes(P):
    plist = [dict(cdtype=c, xdtype=x, chunks=ch) for c in ("int64", "int32", "float32", "float64") for x in ("float64",) for ch in (None, (4, 5))]
    P.probe_real("dtypes", sc_dtypes, plist, tries=1)


def job_big(P):
    from symexec import loader

    sizes = sorted({n for c in loader.int_constants(min_value=64) for n in (c - 1, c + 1, 2 * c + 1) if 64 <= n <= 40000})
    P.probe_real("big-batches", sc_big, [dict(K=3, N=n) for n in sizes] + [dict(K=300, N=900), dict(K=70000 // 256, N=1000)], tries=1)


def job_offsets(P):
    """witness search outside the real-arithmetic claim: large common offsets on the real code
    (float cancellation), NumPy and Dask input"""
    plist = []
    for off in (1e3, 1e6, 1e8):
        for ch in (None, (2, 2), (1, 3)):
            plist.append(dict(K=2, D=2, N=4, chunks=ch, offset=off))
    P.probe_real("large-offsets", sc_assign, plist, tries=2)


def job_assign_dask(P, K, D, N, chunks):
    P.run("assign-dask", sc_assign, dict(K=K, D=D, N=N, chunks=chunks), validate=1)


def job_varw(P, K, D, N, chunks):
    P.run("varw", sc_varw, dict(K=K, D=D, N=N, chunks=chunks), validate=1)


def job_gmm(P, K, D, N, chunks, floor):
    P.run("gmm-init", sc_varw, dict(K=K, D=D, N=N, chunks=chunks, via_gmm=True, floor=floor), validate=1)


def jobs(tier):
    out = [("offsets", "job_offsets", {}), ("big", "job_big", {}), ("dtypes", "job_dtypes", {})]
    for (K, D, N) in SIZES[tier]:
        out.append(("assign@K%dD%dN%d" % (K, D, N), "job_assign", dict(K=K, D=D, N=N)))
        out.append(("varw@K%dD%dN%d" % (K, D, N), "job_varw", dict(K=K, D=D, N=N, chunks=None)))
        for fl in ("scalar", "matrix"):
            out.append(("gmm@K%dD%dN%d-%s" % (K, D, N, fl), "job_gmm", dict(K=K, D=D, N=N, chunks=None, floor=fl)))
        for comp in compositions(N):
            if (K, D, N) not in SIZES["quick"] and len(comp) not in (2, N):
                continue
            nm = "+".join(map(str, comp))
            out.append(("assign-dask@K%dD%dN%d-%s" % (K, D, N, nm), "job_assign_dask", dict(K=K, D=D, N=N, chunks=comp)))
            out.append(("varw-dask@K%dD%dN%d-%s" % (K, D, N, nm), "job_varw", dict(K=K, D=D, N=N, chunks=comp)))
        out.append(("gmm-dask@K%dD%dN%d" % (K, D, N), "job_gmm", dict(K=K, D=D, N=N, chunks=(1, N - 1), floor="scalar")))
    return out
