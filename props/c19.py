"""C19 - Training and scoring never modify or alias caller-owned data."""
import numpy as _np

from symexec.engine import Outcome

from . import fa
from .common import make_gmm, sym_stats, total

FUNCTIONS = ["gmm.GMMMachine.fit / acc_stats / transform / log_likelihood", "gmm.GMMStats.__add__/__iadd__", "gmm.GMMMachine.__init__ (prior copied)", "kmeans.KMeansMachine.fit / transform / predict",
             "linear_scoring.linear_scoring", "ISVMachine/JFAMachine fit, enroll, score, estimate_x, fit_using_array", "ivector.IVectorMachine.fit / project", "wccn.WCCN.fit/transform", "whitening.Whitening.fit/transform"]
STUBS = ["the shim's arrays are real NumPy buffers: views, asarray pass-through, in-place operators and deepcopy alias exactly as in a real run (validated by running every scenario on the real package)",
         "Dask model in shared mode (where aliasing is possible)", "k_init(array) returns the caller's array (as dask_ml does)"]
ASSUMPTIONS = ["'bit-for-bit unchanged' = every element of every caller-owned array/statistics field is the identical term after the call",
               "the solver's part is small here: the interesting quantifier is paths x entry points x values; values are symbolic so that an in-place update cannot cancel out"]
EXHAUSTIVE = ["entry points listed", "NumPy and Dask(shared) input for the array trainers", "frame / no-sharing / idempotence / write-after for each"]
OUTSIDE = ["sizes beyond those listed", "objects reachable only through private attributes"]


def bounds(tier):
    return dict(C_D_N=[(2, 1, 3)] if tier == "quick" else [(2, 1, 3), (2, 2, 3)])


class Frame:
    """snapshots of caller-owned data; frame and sharing obligations"""

    def __init__(self, B, o):
        self.B, self.o = B, o
        self.items = []

    def own(self, name, arr):
        snap = self.B.copy(arr) if hasattr(arr, "shape") and _np.ndim(arr) else arr
        self.items.append((name, arr, snap))
        return arr

    def own_stats(self, name, s):
        for f in ("n", "sum_px", "sum_pxx"):
            self.own("%s.%s" % (name, f), getattr(s, f))
        self.items.append(("%s.t" % name, ("attr", s, "t"), s.t))
        self.items.append(("%s.ll" % name, ("attr", s, "log_likelihood"), s.log_likelihood))

    def own_gmm(self, name, m):
        self.items.append(("%s.means" % name, ("attr", m, "means"), self.B.copy(m.means)))
        self.items.append(("%s.variances" % name, ("attr", m, "variances"), self.B.copy(m.variances)))
        self.items.append(("%s.weights" % name, ("attr", m, "weights"), self.B.copy(m.weights)))
        self._gmm_arrays = getattr(self, "_gmm_arrays", []) + [(name + ".means", m.means), (name + ".variances", m.variances), (name + ".weights", m.weights)]

    def unchanged(self, tag=""):
        for name, ref, snap in self.items:
            cur = getattr(ref[1], ref[2]) if isinstance(ref, tuple) and ref and ref[0] == "attr" else ref
            if hasattr(cur, "shape") and _np.ndim(cur):
                cur = self.B.copy(cur)  # the value now (the harness itself overwrites the arrays later)
            self.o.same("frame%s/%s" % (tag, name), cur, snap)

    def not_shared(self, rname, result):
        if not hasattr(result, "shape"):
            return
        r = _np.asarray(result)
        for name, ref, snap in self.items:
            if isinstance(ref, tuple):
                continue
            if hasattr(ref, "shape") and _np.ndim(ref):
                self.o.claim("no-sharing/%s-vs-%s" % (rname, name), not _np.shares_memory(r, _np.asarray(ref)))
        for name, a in getattr(self, "_gmm_arrays", []):
            self.o.claim("no-sharing/%s-vs-%s" % (rname, name), not _np.shares_memory(r, _np.asarray(a)))

    def scribble(self, name_prefix=""):
        """overwrite every owned array in place with fresh values"""
        for k, (name, ref, snap) in enumerate(self.items):
            if isinstance(ref, tuple) or not (hasattr(ref, "shape") and _np.ndim(ref)):
                continue
            if name.startswith(name_prefix):
                ref[...] = self.B.arr("scr%d" % k, _np.shape(ref))


def sc_gmm(B, trainer, dask, size=(2, 1, 3)):
    gmm = B.mod("gmm")
    C, D, N = size
    o = Outcome()
    fr = Frame(B, o)
    X = fr.own("X", B.arr("x", (N, D)))
    if trainer == "ml":
        m, P = make_gmm(B, C, D, "scalar", simplex=True, update_means=True, update_variances=True, update_weights=True, max_fitting_steps=1)
        # the initial parameters are arrays the caller keeps (handed over through the setters)
        init_mu = fr.own("initial-means", B.copy(m.means))
        init_w = fr.own("initial-weights", B.copy(m.weights))
        init_v = fr.own("initial-variances", B.copy(m.variances))
        m.means, m.weights, m.variances = init_mu, init_w, init_v
    else:
        ubm, P = make_gmm(B, C, D, "scalar", pre="u", simplex=True)
        fr.own_gmm("ubm", ubm)
        m = gmm.GMMMachine(C, trainer="map", ubm=ubm, update_means=True, update_variances=False, update_weights=True, max_fitting_steps=1, map_relevance_factor=B.real("r", pos=True))
        for nm in ("means", "variances", "weights"):
            fr.not_shared("map-initial-" + nm, getattr(m, nm))
    data = X if not dask else B.darr(X, ((1, N - 1), (D,)))
    if dask:
        B.executor("fifo", False)
    m.fit(data)
    fr.unchanged()
    res = dict(means=B.copy(m.means), variances=B.copy(m.variances), weights=B.copy(m.weights))
    for nm in res:
        fr.not_shared("trained-" + nm, getattr(m, nm))
    # scoring entry points
    st = m.acc_stats(X)
    m.log_likelihood(X)
    m.transform(X)
    fr.unchanged("-after-scoring")
    for nm in res:
        o.same("scoring-leaves-machine/" + nm, getattr(m, nm), res[nm])
    for f in ("n", "sum_px", "sum_pxx"):
        fr.not_shared("stats-" + f, getattr(st, f))
    o.same("acc_stats-idempotent/n", m.acc_stats(X).n, st.n)
    # write-after: overwriting the training data / the prior's arrays leaves the model unchanged
    fr.scribble()
    for nm in res:
        o.same("write-after/" + nm, getattr(m, nm), res[nm])
    return o


def sc_kmeans(B, dask, iters, size=(2, 1, 3)):
    km = B.mod("kmeans")
    K, D, N = size
    o = Outcome()
    fr = Frame(B, o)
    X = fr.own("X", B.arr("x", (N, D)))
    init = fr.own("init", B.arr("c", (K, D)))
    m = km.KMeansMachine(K, init_method=init, max_iter=iters, convergence_threshold=None)
    data = X if not dask else B.darr(X, ((1, N - 1), (D,)))
    if dask:
        B.executor("fifo", False)
    m.fit(data)
    fr.unchanged()
    cents = B.copy(m.centroids_)
    fr.not_shared("centroids", m.centroids_)
    m.transform(X)
    m.predict(X)
    m.get_variances_and_weights_for_each_cluster(data)
    fr.unchanged("-after-use")
    o.same("use-leaves-centroids", m.centroids_, cents)
    fr.scribble()
    o.same("write-after/centroids", m.centroids_, cents)
    return o


def sc_setters(B):
    """arrays handed to a machine through its setters stay the caller's: assigning them (also into a
    machine with higher floors, also another machine's arrays) does not modify them"""
    gmm = B.mod("gmm")
    C, D = 2, 2
    o = Outcome()
    fr = Frame(B, o)
    w = fr.own("w", B.arr("w", (C,), pos=True))
    mu = fr.own("mu", B.arr("mu", (C, D)))
    v = fr.own("v", B.arr("v", (C, D), pos=True))
    thr = fr.own("thr", B.arr("thr", (D,), pos=True))
    m = gmm.GMMMachine(C)
    m.weights, m.means = w, mu
    m.variance_thresholds = thr
    m.variances = v
    fr.unchanged("-after-setters")
    # a second machine with floors of its own takes the first machine's arrays
    src_v, src_mu = B.copy(m.variances), B.copy(m.means)
    X = B.arr("x", (1, D))
    ll = B.copy(m.log_likelihood(X))
    m2 = gmm.GMMMachine(C)
    m2.variance_thresholds = B.real("thr2", pos=True)
    m2.means = m.means
    m2.variances = m.variances
    m2.log_likelihood(X)
    o.same("source-machine-variances-unchanged", m.variances, src_v)
    o.same("source-machine-means-unchanged", m.means, src_mu)
    o.same("source-machine-scores-unchanged", m.log_likelihood(X), ll)
    fr.unchanged("-after-second-machine")
    return o


def sc_stats_ops(B):
    gmm = B.mod("gmm")
    C, D = 2, 1
    o = Outcome()
    fr = Frame(B, o)
    a, _ = sym_stats(B, C, D, "a", data_like=False)
    b, _ = sym_stats(B, C, D, "b", data_like=False)
    fr.own_stats("a", a)
    fr.own_stats("b", b)
    c = a + b
    fr.unchanged("-after-add")
    for f in ("n", "sum_px", "sum_pxx"):
        fr.not_shared("sum-" + f, getattr(c, f))
    acc = gmm.GMMStats(C, D)
    acc += a
    acc += b
    fr.unchanged("-after-iadd-into-fresh")
    for f in ("n", "sum_px", "sum_pxx"):
        fr.not_shared("acc-" + f, getattr(acc, f))
    o.equal("iadd-value", acc.n, [a.n[c_] + b.n[c_] for c_ in range(C)])
    return o


def sc_linear(B):
    gmm = B.mod("gmm")
    ls = B.mod("linear_scoring").linear_scoring
    C, D = 2, 1
    o = Outcome()
    fr = Frame(B, o)
    ubm, P = make_gmm(B, C, D, "scalar", pre="u")
    fr.own_gmm("ubm", ubm)
    models = fr.own("models", B.arr("m", (2, C, D)))
    s, _ = sym_stats(B, C, D, "s", data_like=False)
    B.assume(s.t >= 1)
    fr.own_stats("s", s)
    off = fr.own("offsets", B.arr("o", (1, C, D)))
    r1 = ls(models, ubm, [s], off, True)
    fr.unchanged()
    fr.not_shared("scores", r1)
    o.same("idempotent", ls(models, ubm, [s], off, True), r1)
    return o


def sc_fa(B, kind):
    C, D, rU, rV = 1, 1, 1, 1
    o = Outcome()
    fr = Frame(B, o)
    m, M = fa.make_fa(B, kind, C, D, rU, rV, em_iterations=1, enroll_iterations=1)
    fr.own_gmm("ubm", M["ubm"])
    stats = []
    for h in range(3):
        s, _ = fa.make_stats(B, C, D, "s%d" % h)
        fr.own_stats("s%d" % h, s)
        stats.append(s)
    labels = [0, 1, 1]
    stats_list = list(stats)
    m.fit(stats_list, labels)
    fr.unchanged("-after-fit")
    o.claim("labels-unchanged", labels == [0, 1, 1] and len(stats_list) == 3 and all(a is b for a, b in zip(stats_list, stats)))
    fr.not_shared("U", m.U)
    model = m.enroll(stats[1:])
    fr.unchanged("-after-enroll")
    sc1 = m.score(model, stats[:2])
    fr.unchanged("-after-score")
    o.same("score-idempotent", m.score(model, stats[:2]), sc1)
    m.estimate_x(stats[:2])
    fr.unchanged("-after-estimate_x")
    return o


def sc_ivector(B, update_sigma=True):
    from .c10 import iv_stats

    iv = B.mod("ivector")
    C, D, t = 2, 1, 1
    o = Outcome()
    fr = Frame(B, o)
    ubm, UP = make_gmm(B, C, D, "scalar", pre="u")
    fr.own_gmm("ubm", ubm)
    stats = []
    for j in range(2):
        s, _ = iv_stats(B, C, D, "s%d" % j, pos=True)
        s.log_likelihood = 0
        fr.own_stats("s%d" % j, s)
        stats.append(s)
    m = iv.IVectorMachine(ubm=ubm, dim_t=t, max_iterations=1, update_sigma=update_sigma)
    B.np.random.seed(0)
    m.fit(list(stats))
    fr.unchanged("-after-fit")
    fr.not_shared("sigma", m.sigma)
    fr.not_shared("T", m.T)
    w = m.project(stats[0])
    fr.unchanged("-after-project")
    o.same("project-idempotent", m.project(stats[0]), w)
    return o


def sc_linear_tx(B, which):
    o = Outcome()
    fr = Frame(B, o)
    N, D = 4, 1
    X = fr.own("X", B.arr("x", (N, D)))
    if which == "wccn":
        m = B.mod("wccn").WCCN()
        B.assume(X[0, 0] - X[2, 0] > 0.1)
        labels = [0, 1, 0, 1]
        m.fit(X, labels)
        o.claim("labels-unchanged", labels == [0, 1, 0, 1])
    else:
        m = B.mod("whitening").Whitening()
        B.assume(X[0, 0] - X[1, 0] > 0.1)
        m.fit(X)
    fr.unchanged("-after-fit")
    fr.not_shared("weights", m.weights)
    m.transform(X)
    fr.unchanged("-after-transform")
    w = B.copy(m.weights)
    fr.scribble()
    o.same("write-after/weights", m.weights, w)
    return o


def job_gmm(P, size=(2, 1, 3)):
    for tr in ("ml", "map"):
        for dask in (False, True):
            P.run("gmm-%s-%s" % (tr, "dask" if dask else "numpy"), sc_gmm, dict(trainer=tr, dask=dask, size=size), validate=1)


def job_kmeans(P, size=(2, 1, 3), combos=((False, 1), (False, 2), (True, 1), (True, 2))):
    for dask, it in combos:
        if True:
            P.run("kmeans-%s-it%d" % ("dask" if dask else "numpy", it), sc_kmeans, dict(dask=dask, iters=it, size=size), validate=1)


def job_misc(P):
    P.run("stats-ops", sc_stats_ops, {}, validate=1)
    P.run("setters", sc_setters, {}, validate=3)
    P.run("linear-scoring", sc_linear, {}, validate=1)
    P.run("ivector", sc_ivector, {}, validate=0)
    P.run("ivector-fixed-sigma", sc_ivector, dict(update_sigma=False), validate=0)
    for w in ("wccn", "whitening"):
        P.run(w, sc_linear_tx, dict(which=w), validate=1)


def job_fa(P, kind):
    P.run("fa-" + kind, sc_fa, dict(kind=kind), validate=1)


def jobs(tier):
    out = [("gmm", "job_gmm", {}), ("kmeans", "job_kmeans", {}), ("misc", "job_misc", {}), ("isv", "job_fa", dict(kind="isv")), ("jfa", "job_fa", dict(kind="jfa"))]
    if tier == "thorough":
        out += [("gmm@C2D2N3", "job_gmm", dict(size=(2, 2, 3))), ("kmeans@K2D2N3-numpy", "job_kmeans", dict(size=(2, 2, 3), combos=((False, 1),))), ("kmeans@K2D2N3-dask", "job_kmeans", dict(size=(2, 2, 3), combos=((True, 1),)))]
    return out
