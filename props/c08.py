"""C08 - Linear scoring is the exact first-order log-likelihood ratio around the UBM."""
from symexec.engine import Outcome

from .common import make_gmm

FUNCTIONS = ["linear_scoring.linear_scoring", "gmm.GMMMachine.__init__ (MAP machine, prior copied)"]
STUBS = []
ASSUMPTIONS = ["UBM variances > 0", "frame counts T = 0 exactly or T >= 1 (|T| <= machine epsilon but non-zero is outside the claim)", "real arithmetic",
               "derivative clause: d/d(eps) of the UBM log-likelihood is compared symbolically only through the closed formula (Glembek 2009); the formula itself is the textbook gradient (trusted)"]
EXHAUSTIVE = ["models as machines / as mean arrays / single 2-D mean array", "stats as list / single object", "offsets 0 / non-zero scalar / (D,) / (C,D) / (S,C,D)", "normalisation on/off", "MAP machine or its prior passed as ubm"]
OUTSIDE = ["sizes beyond those listed", "rounding"]
SIZES = {"quick": [(1, 1), (2, 2)], "thorough": [(1, 1), (2, 2), (3, 2), (2, 3), (3, 3)]}


def bounds(tier):
    return dict(C_D=SIZES[tier], n_models=[1, 2] if tier == "quick" else [1, 2, 3], n_stats=[1, 2] if tier == "quick" else [1, 2, 3])


def oracle(B, UP, models, stats, offs, norm):
    """score[m][s] = sum_cd (mu_mcd - m_cd)/v_cd * (F_scd - n_sc (m_cd + o_scd)) [/ T_s, 0 if T_s = 0]"""
    C, D = UP["C"], UP["D"]
    out = []
    for mm in models:
        row = []
        for si, st in enumerate(stats):
            tot = 0
            for c in range(C):
                for d in range(D):
                    o = offs(si, c, d)
                    tot = tot + (mm[c][d] - UP["mu"][c][d]) / UP["v"][c][d] * (st["F"][c][d] - st["n"][c] * (UP["mu"][c][d] + o))
            if norm:
                tot = 0 if st["zero"] else tot / st["t"]
            row.append(tot)
        out.append(row)
    return out


def sc_linear(B, C, D, M, S, off, norm, models_as, stats_as, ubm_as, zero_last=False):
    gmm = B.mod("gmm")
    ls = B.mod("linear_scoring").linear_scoring
    ubm, UP = make_gmm(B, C, D, "scalar", pre="u")
    means = [B.arr("m%d" % k, (C, D)) for k in range(M)]
    stats, so = [], []
    for s in range(S):
        st = gmm.GMMStats(C, D)
        zero = zero_last and s == S - 1
        if zero:
            n = B.np.zeros((C,))
            F = B.np.zeros((C, D))
            t = 0
        else:
            n = B.arr("n%d" % s, (C,), nonneg=True)
            F = B.arr("F%d" % s, (C, D))
            t = B.real("t%d" % s, lo=1)
        st.n, st.sum_px, st.t = B.copy(n), B.copy(F), t
        stats.append(st)
        so.append(dict(n=n, F=F, t=t, zero=zero))
    if off == "zero":
        offsets, of = 0, (lambda s, c, d: 0)
    elif off == "scalar":
        O = B.real("o")
        offsets, of = O, (lambda s, c, d: O)
    elif off == "d":
        O = B.arr("o", (D,))
        offsets, of = B.copy(O), (lambda s, c, d: O[d])
    elif off == "cd":
        O = B.arr("o", (C, D))
        offsets, of = B.copy(O), (lambda s, c, d: O[c, d])
    else:
        O = B.arr("o", (S, C, D))
        offsets, of = B.copy(O), (lambda s, c, d: O[s, c, d])
    if models_as == "machines":
        mods = []
        for k in range(M):
            mk = gmm.GMMMachine(C)
            mk.means = B.copy(means[k])
            mods.append(mk)
    elif models_as == "array":
        mods = B.np.array([B.copy(mm) for mm in means])
    elif models_as == "list":
        mods = [B.copy(mm) for mm in means]
    else:  # a single 2-D mean array
        mods = B.copy(means[0])
    if ubm_as == "map":
        u = gmm.GMMMachine(C, trainer="map", ubm=ubm)
        u.means = B.arr("adapted", (C, D))  # the adapted machine's own means must not matter
    else:
        u = ubm
    st_arg = stats if stats_as == "list" else stats[0]
    got = ls(mods, u, st_arg, offsets, frame_length_normalization=norm)
    nm = M if models_as != "single2d" else 1
    ns = S if stats_as == "list" else 1
    want = oracle(B, UP, [means[k] for k in range(nm)], so[:ns], of, norm)
    o = Outcome()
    o.equal("score", got, want)
    return o


def sc_ubm_zero(B, C, D, S, norm):
    """the UBM scored against itself is 0 for any statistics / offsets"""
    gmm = B.mod("gmm")
    ls = B.mod("linear_scoring").linear_scoring
    ubm, UP = make_gmm(B, C, D, "scalar", pre="u")
    stats = []
    for s in range(S):
        st = gmm.GMMStats(C, D)
        st.n, st.sum_px, st.t = B.arr("n%d" % s, (C,), nonneg=True), B.arr("F%d" % s, (C, D)), B.real("t%d" % s, lo=1)
        stats.append(st)
    got = ls([ubm], ubm, stats, B.arr("o", (S, C, D)), frame_length_normalization=norm)
    o = Outcome()
    o.equal("ubm-scores-zero", got, [[0] * S])
    return o


def sc_history(B, C, D, change):
    """scoring reflects the UBM's *current* parameters: score, modify the UBM through its public
    setters, score again"""
    gmm = B.mod("gmm")
    ls = B.mod("linear_scoring").linear_scoring
    ubm, UP = make_gmm(B, C, D, "scalar", pre="u")
    means = [B.arr("m0", (C, D))]
    st = gmm.GMMStats(C, D)
    n, F, t = B.arr("n", (C,), nonneg=True), B.arr("F", (C, D)), B.real("t", lo=1)
    st.n, st.sum_px, st.t = B.copy(n), B.copy(F), t
    so = [dict(n=n, F=F, t=t, zero=False)]
    user = gmm.GMMMachine(C, trainer="map", ubm=ubm) if change.endswith("-via-map") else ubm
    ls([B.copy(means[0])], user, [st], 0, frame_length_normalization=True)  # first use
    if change.startswith("variances"):
        nv = B.arr("nv", (C, D), pos=True)
        ubm.variances = B.copy(nv)
        UP["v"] = [[B.maximum(UP["thr"][c][d], nv[c, d]) for d in range(D)] for c in range(C)]
    elif change.startswith("floors"):
        nt = B.real("nt", pos=True)
        ubm.variance_thresholds = nt
        UP["v"] = [[B.maximum(nt, UP["v"][c][d]) for d in range(D)] for c in range(C)]
    elif change.startswith("means"):
        nm = B.arr("nm", (C, D))
        ubm.means = B.copy(nm)
        UP["mu"] = [[nm[c, d] for d in range(D)] for c in range(C)]
    got = ls([B.copy(means[0])], user, [st], 0, frame_length_normalization=True)
    o = Outcome()
    o.equal("score-after-change", got, oracle(B, UP, means, so, (lambda s, c, d: 0), True))
    return o


def sc_gradient(B, C, D, N):
    """composition with real statistics: the score of (UBM means + delta) against acc_stats(X) is
    sum_i sum_c r_ci (x_i - mu_c)' Sigma_c^-1 delta_c, the textbook directional derivative of the
    data's UBM log-likelihood (that this expression *is* the derivative is trusted calculus)"""
    from .common import o_resp

    ls = B.mod("linear_scoring").linear_scoring
    ubm, UP = make_gmm(B, C, D, "scalar", pre="u", simplex=True)
    X = B.arr("x", (N, D))
    delta = B.arr("dl", (C, D))
    model = B.np.array([[UP["mu"][c][d] + delta[c, d] for d in range(D)] for c in range(C)])
    got = ls(model, ubm, ubm.acc_stats(X), 0, frame_length_normalization=False)
    want = 0
    for i in range(N):
        r, _ = o_resp(B, UP, X[i])
        for c in range(C):
            for d in range(D):
                want = want + r[c] * (X[i][d] - UP["mu"][c][d]) / UP["v"][c][d] * delta[c, d]
    o = Outcome()
    o.equal("score-is-directional-derivative-formula", got, [[want]])
    return o


def job_gradient(P):
    for (C, D, N) in ((2, 1, 2), (2, 2, 2)):
        P.run("gradient@C%dD%dN%d" % (C, D, N), sc_gradient, dict(C=C, D=D, N=N), validate=1)


def job_history(P, C, D):
    for change in ("variances", "floors", "means", "variances-via-map", "floors-via-map"):
        P.run("history-" + change, sc_history, dict(C=C, D=D, change=change), validate=1)


def job_linear(P, C, D, M, S):
    for off in ("zero", "scalar", "d", "cd", "scd"):
        for norm in (False, True):
            for models_as in ("machines", "array", "list") + (("single2d",) if M == 1 else ()):
                for stats_as in ("list",) + (("single",) if S == 1 else ()):
                    for ubm_as in ("ml", "map"):
                        if off == "scd" and stats_as == "single":
                            continue
                        nm = "%s-%s-%s-%s-%s" % (off, "norm" if norm else "raw", models_as, stats_as, ubm_as)
                        P.run(nm, sc_linear, dict(C=C, D=D, M=M, S=S, off=off, norm=norm, models_as=models_as, stats_as=stats_as, ubm_as=ubm_as), validate=1)
    for norm in (False, True):
        P.run("zero-frames-%s" % norm, sc_linear, dict(C=C, D=D, M=M, S=S, off="cd", norm=norm, models_as="array", stats_as="list", ubm_as="ml", zero_last=True), validate=1)
        P.run("ubm-zero-%s" % norm, sc_ubm_zero, dict(C=C, D=D, S=S, norm=norm), validate=1)


def jobs(tier):
    out = []
    ms = [1, 2] if tier == "quick" else [1, 2, 3]
    for (C, D) in SIZES[tier]:
        for M in ms:
            for S in ms:
                out.append(("linear@C%dD%dM%dS%d" % (C, D, M, S), "job_linear", dict(C=C, D=D, M=M, S=S)))
    for (C, D) in SIZES[tier]:
        out.append(("history@C%dD%d" % (C, D), "job_history", dict(C=C, D=D)))
    out.append(("gradient", "job_gradient", {}))
    return out
