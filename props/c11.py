"""C11 - ISV/JFA scores are channel-compensated linear scores, same via every entry point."""
from symexec.engine import Outcome

from . import fa
from .common import o_stats, total

FUNCTIONS = ["factor_analysis.FactorAnalysisBase.estimate_x/estimate_ux/_compute_id_plus_us_prod_inv/_compute_fn_x", "ISVMachine.score", "JFAMachine.score",
             "FactorAnalysisBase.score_using_array", "ISVMachine.enroll_using_array / FactorAnalysisBase.enroll_using_array", "ISVMachine.transform", "FactorAnalysisBase.update_U",
             "linear_scoring.linear_scoring", "gmm.GMMMachine.acc_stats"]
STUBS = ["numpy.linalg.inv closed form (rank 1) / uninterpreted with contract (rank 2)"]
ASSUMPTIONS = ["UBM variances > 0, counts >= 0, total frame count of the probe >= 1", "the nested list-of-templates form of `data` is not part of the property (it raises inside estimate_x before any pooling) and is not claimed"]
EXHAUSTIVE = ["ISV and JFA", "probe of 1, 2, 3 statistics", "every array-level entry point against its statistics-level counterpart", "scoring the same probe list twice", "scoring after U was replaced (setter, update_U)"]
OUTSIDE = ["ranks > 2", "rounding"]
SIZES = {"quick": [(2, 1, 1, 1), (2, 1, 2, 2), (2, 2, 1, 1)], "thorough": [(2, 1, 1, 1), (2, 1, 2, 2), (2, 2, 2, 1), (1, 3, 2, 2)]}


def bounds(tier):
    return dict(C_D_rU_rV=SIZES[tier], probe_statistics=[1, 2, 3])


def _la(rU):
    return "closed" if rU <= 1 else "uf"


def o_score(B, M, sess, y, z):
    """frame-normalised linear score of the client mean m + Dz (+Vy) against the pooled probe,
    UBM means shifted by U x, x = posterior mean given the pooled statistics"""
    CD = M["CD"]
    N = [total([s["N"][i] for s in sess]) for i in range(CD)]
    F = [total([s["F"][i] for s in sess]) for i in range(CD)]
    T = total([s["t"] for s in sess])
    pooled = dict(N=N, F=F)
    x = fa.o_x(B, M, pooled, None, None)
    Ux = [total([M["U"][i][r] * x[r] for r in range(M["rU"])]) for i in range(CD)]
    model = fa.off(M, y, None, z)  # V y + D z
    sc = total([model[i] / M["S"][i] * (F[i] - N[i] * (M["m"][i] + Ux[i])) for i in range(CD)])
    return sc / T, x, Ux


def sc_score(B, kind, C, D, rU, rV, S, twice=False, history=None, layout="C"):
    m, M = fa.make_fa(B, kind, C, D, rU, rV)
    if layout == "F":
        # the UBM's arrays as (transposed) views: same values, another memory layout
        ubm = M["ubm"]
        ubm.means = B.np.array([[ubm.means[c, d] for c in range(C)] for d in range(D)]).T
        ubm.variances = B.np.array([[ubm.variances[c, d] for c in range(C)] for d in range(D)]).T
    X, sess = [], []
    for h in range(S):
        s, O = fa.make_stats(B, C, D, "p%d" % h)
        X.append(s)
        sess.append(O)
    B.assume(total([s["t"] for s in sess]) >= 1)
    CD = C * D
    z = B.arr("z", (CD,))
    zl = [z[i] for i in range(CD)]
    if kind == "jfa":
        y = B.arr("y", (rV,))
        yl = [y[r] for r in range(rV)]
        model = [B.copy(y), B.copy(z)]
    else:
        yl = None
        model = B.copy(z)
    if history == "setter":
        m.score(model, X)
        nU = B.arr("nU", (CD, rU))
        m.U = B.copy(nU)
        M["U"] = [[nU[i, r] for r in range(rU)] for i in range(CD)]
    elif history == "update_U":
        m.estimate_x(X)
        A1 = B.arr("A1", (C, rU, rU))
        A2 = B.arr("A2", (CD, rU))
        if rU == 1:
            for c in range(C):
                B.assume(A1[c, 0, 0] > 0)
        m.update_U(B.copy(A1), B.copy(A2))
        # U_c = A2_c inv(A1_c)
        newU = []
        for c in range(C):
            Ai = B.inv([[A1[c, a, b] for b in range(rU)] for a in range(rU)])
            for d in range(D):
                i = c * D + d
                newU.append([total([A2[i, k] * Ai[k][r] for k in range(rU)]) for r in range(rU)])
        M["U"] = newU
    want, wx, wUx = o_score(B, M, sess, yl, zl)
    o = Outcome()
    got = m.score(model, X)
    o.equal("score", got, want)
    if twice:
        o.equal("score-again-same-probe", m.score(model, X), want)
    o.equal("estimate_x", m.estimate_x(X), wx)
    o.equal("estimate_ux", m.estimate_ux(X), wUx)
    return o


def sc_arrays(B, kind, C, D, rU, rV, n_arrays):
    """array-level entry points == statistics-level ones applied to the UBM statistics"""
    m, M = fa.make_fa(B, kind, C, D, rU, rV)
    ubm = M["ubm"]
    CD = C * D
    arrays = [B.arr("a%d" % k, (2, D)) for k in range(n_arrays)]
    z = B.arr("z", (CD,))
    if kind == "jfa":
        y = B.arr("y", (rV,))
        model = [B.copy(y), B.copy(z)]
    else:
        model = B.copy(z)
    o = Outcome()
    stats = [ubm.acc_stats(B.copy(a)) for a in arrays]
    o.equal("score_using_array", m.score_using_array(model, [B.copy(a) for a in arrays]), m.score(model, stats))
    e1 = m.enroll_using_array(B.copy(arrays[0]))
    e2 = m.enroll([ubm.acc_stats(B.copy(arrays[0]))])
    if kind == "jfa":
        o.equal("enroll_using_array/y", e1[0], e2[0])
        o.equal("enroll_using_array/z", e1[1], e2[1])
    else:
        o.equal("enroll_using_array/z", e1, e2)
        t = m.transform(B.copy(arrays[0]))
        o.equal("transform-is-Ux", t, m.estimate_ux([ubm.acc_stats(B.copy(arrays[0]))]))
        # and against the independent oracle
        P = M["UP"]
        ws = o_stats(B, P, arrays[0])
        pooled = dict(N=[ws["n"][c] for c in range(C) for d in range(D)], F=[ws["px"][c][d] for c in range(C) for d in range(D)])
        x = fa.o_x(B, M, pooled, None, None)
        o.equal("transform-oracle", t, [total([M["U"][i][r] * x[r] for r in range(rU)]) for i in range(CD)])
    return o


def sc_fit_arrays(B, kind, dask):
    """fit_using_array(X, y) == fit(per-row UBM statistics of X, y)"""
    C, D, rU, rV = 1, 1, 1, 1
    labels = [0, 1, 1]  # asymmetric class sizes: a mis-pairing of rows and labels changes the partition
    X = B.arr("x", (3, D))

    def build():
        return fa.make_fa(B, kind, C, D, rU, rV, em_iterations=1)

    ref, M = build()
    ref.fit(M["ubm"].transform(B.copy(X)), list(labels))
    m, M2 = build()
    if dask:
        B.executor("fifo", False)
    m.fit_using_array(B.copy(X) if not dask else B.darr(B.copy(X), ((1, 2), (D,))), list(labels))
    o = Outcome()
    o.same("U", m.U, ref.U)
    if kind == "jfa":
        o.same("V", m.V, ref.V)
        o.same("D", m.D, ref.D)
    return o


def job_fit_arrays(P):
    for kind in ("isv", "jfa"):
        for dask in (False, True):
            P.run("fit_using_array-%s-%s" % (kind, "dask" if dask else "numpy"), sc_fit_arrays, dict(kind=kind, dask=dask), validate=1)


def job_score(P, kind, C, D, rU, rV):
    for S in (1, 2, 3):
        P.run("score-S%d" % S, sc_score, dict(kind=kind, C=C, D=D, rU=rU, rV=rV, S=S, twice=(S == 2)), linalg=_la(rU), validate=1)
    if D > 1:
        P.run("score-noncontiguous-ubm", sc_score, dict(kind=kind, C=C, D=D, rU=rU, rV=rV, S=2, layout="F"), linalg=_la(rU), validate=1)
    for hist in ("setter", "update_U"):
        if hist == "update_U" and C * D * rU > 4:
            continue  # U = A2 inv(A1) inside the posterior precision exceeds the normal-form budget
        P.run("score-after-" + hist, sc_score, dict(kind=kind, C=C, D=D, rU=rU, rV=rV, S=2, history=hist), linalg=_la(rU), validate=1)


def job_arrays(P, kind, C, D, rU, rV):
    for n in (1, 2):
        P.run("arrays-%d" % n, sc_arrays, dict(kind=kind, C=C, D=D, rU=rU, rV=rV, n_arrays=n), linalg=_la(rU), validate=1)


def jobs(tier):
    out = []
    for (C, D, rU, rV) in SIZES[tier]:
        for kind in ("isv", "jfa"):
            tag = "%s@C%dD%drU%drV%d" % (kind, C, D, rU, rV)
            out.append(("score-" + tag, "job_score", dict(kind=kind, C=C, D=D, rU=rU, rV=rV)))
    for kind in ("isv", "jfa"):
        out.append(("arrays-%s@C2D1rU1rV1" % kind, "job_arrays", dict(kind=kind, C=2, D=1, rU=1, rV=1)))
    out.append(("fit-arrays", "job_fit_arrays", {}))
    return out
