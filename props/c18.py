"""C18 - Saving and loading a GMM or its statistics preserves them exactly."""
import itertools

from symexec.engine import Outcome

from .common import floors, make_gmm, o_ll, sym_stats

FUNCTIONS = ["gmm.GMMMachine.save", "gmm.GMMMachine.from_hdf5 (current and legacy layout)", "gmm.GMMMachine.load", "gmm.GMMMachine.__eq__",
             "gmm.GMMStats.save", "gmm.GMMStats.from_hdf5 (current and legacy layout)", "gmm.GMMStats.load", "gmm.GMMStats.resize/init_fields", "gmm.GMMStats.__eq__"]
STUBS = ["h5py.File: in-memory model with h5py-3 semantics (str read back as bytes, scalars as NumPy scalars, arrays copied, None not storable); validated against real h5py by running every scenario on real files"]
ASSUMPTIONS = ["'bit-identical' is read as: the reloaded field is the same term, with no arithmetic applied (equality over the reals, all values symbolic)",
               "floors > 0, variances > 0 (the saved machine's variances respect its floors)", "max_fitting_steps is an integer (None cannot be written by h5py: save raises, nothing is silently lost)"]
EXHAUSTIVE = ["ML and MAP machines", "floors scalar/(D,)/(C,D)", "path or open file, constructor-from-file or load() into an existing object (also of another shape)", "update switches symbolic booleans", "1 and 2 round trips"]
OUTSIDE = ["sizes beyond (C,D) listed", "float formatting of HDF5 (h5py stores IEEE doubles exactly: trusted)", "fields that save() does not record (map_alpha, relevance factor, random_state, count threshold)"]
SIZES = {"quick": [(2, 2)], "thorough": [(1, 1), (2, 2), (3, 2)]}


def bounds(tier):
    return dict(C_D=SIZES[tier], round_trips=[1, 2])


def sc_machine(B, C, D, kind, floor, how, trips):
    gmm = B.mod("gmm")
    um, uv, uw = B.bool("um"), B.bool("uv"), B.bool("uw")
    cap = B.int("cap", 0, 1000, hint=7)
    thr = B.real("cthr", nonneg=True)
    ubm = None
    if kind == "map":
        ubm, _ = make_gmm(B, C, D, "vector", pre="u", simplex=True)
        m = gmm.GMMMachine(C, trainer="map", ubm=ubm, update_means=um, update_variances=uv, update_weights=uw, max_fitting_steps=cap, convergence_threshold=thr)
        m.weights = B.arr("w", (C,), pos=True)
        m.means = B.arr("mu", (C, D))
        m.variance_thresholds = floors(B, floor, C, D, "thr")
        m.variances = B.arr("v", (C, D), pos=True)
    else:
        m, _ = make_gmm(B, C, D, floor, update_means=um, update_variances=uv, update_weights=uw, max_fitting_steps=cap, convergence_threshold=thr)
    saved = dict(w=B.copy(m.weights), mu=B.copy(m.means), v=B.copy(m.variances), thr=m.variance_thresholds)
    cur = m
    for k in range(trips):
        path = B.h5path("m%d.h5" % k)
        if how == "path":
            cur.save(path)
            new = gmm.GMMMachine.from_hdf5(path, ubm=ubm)
        elif how == "file":
            f = B.h5file(path, "w")
            cur.save(f)
            f.close()
            f = B.h5file(path, "r")
            new = gmm.GMMMachine.from_hdf5(f, ubm=ubm)
        else:  # load into an existing object of another shape
            cur.save(path)
            # an existing object: another shape for ML; for MAP an adapted machine of the same prior
            new = gmm.GMMMachine(C + 1) if kind == "ml" else gmm.GMMMachine(C, trainer="map", ubm=ubm)
            # it has parameters and floors of its own (possibly above the file's variances)
            nC = C + 1 if kind == "ml" else C
            new.means = B.arr("om%d" % k, (nC, D))
            new.variance_thresholds = B.real("ot%d" % k, pos=True)
            new.variances = B.arr("ov%d" % k, (nC, D), pos=True)
            new.load(B.h5file(path, "r"))
        cur = new
    o = Outcome()
    o.equal("weights", cur.weights, saved["w"])
    o.equal("means", cur.means, saved["mu"])
    o.equal("variances", cur.variances, saved["v"])
    o.equal("variance-floors", cur.variance_thresholds, saved["thr"])
    o.claim("trainer-kind", cur.trainer == kind and isinstance(cur.trainer, str))
    o.claim("max-fitting-steps", cur.max_fitting_steps == cap)
    o.claim("convergence-threshold", cur.convergence_threshold == thr)
    for nm, sw in (("update_means", um), ("update_variances", uv), ("update_weights", uw)):
        got = getattr(cur, nm)
        o.claim(nm, (got == sw) if B.sym else (bool(got) == bool(sw)))
    o.claim("n-gaussians", int(cur.n_gaussians) == C)
    X = B.arr("x", (2, D))
    o.equal("scores-identically", cur.log_likelihood(X), m.log_likelihood(X))
    o.claim("package-equality", bool(cur == m) and bool(m == cur))
    return o


def sc_resave(B, C, D, floor):
    """save(load(save(m))) writes the same values as save(m)"""
    gmm = B.mod("gmm")
    m, _ = make_gmm(B, C, D, floor)
    p1, p2 = B.h5path("a.h5"), B.h5path("b.h5")
    m.save(p1)
    gmm.GMMMachine.from_hdf5(p1).save(p2)
    f1, f2 = B.h5file(p1, "r"), B.h5file(p2, "r")
    o = Outcome()
    for k in ("n_gaussians", "max_fitting_steps", "convergence_threshold", "update_means", "update_variances", "update_weights"):
        o.claim("resave/" + k, f1[k][()] == f2[k][()])
    o.claim("resave/trainer", f1["trainer"][()] == f2["trainer"][()])
    o.equal("resave/weights", f2["weights"][...], f1["weights"][...])
    for k in ("means", "variances", "variance_thresholds"):
        o.equal("resave/" + k, f2["gaussians"][k][...], f1["gaussians"][k][...])
    o.claim("resave/version", f1.attrs["file_version"] == f2.attrs["file_version"])
    return o


def sc_legacy(B, C, D):
    """a legacy-layout file loads to the same model as its current-format counterpart"""
    gmm = B.mod("gmm")
    w = B.arr("w", (C,), pos=True)
    mu = B.arr("mu", (C, D))
    thr = B.arr("thr", (C, D), pos=True)
    v = B.arr("v", (C, D), pos=True)
    path = B.h5path("legacy.h5")
    f = B.h5file(path, "w")
    import numpy as _np

    f["m_n_gaussians"] = _np.array([C])
    f["m_weights"] = B.copy(w).reshape(1, C) if hasattr(w, "reshape") else w
    for i in range(C):
        g = f.create_group("m_gaussians%d" % i)
        g["m_mean"] = B.copy(mu[i])
        g["m_variance"] = B.copy(v[i])
        g["m_variance_thresholds"] = B.copy(thr[i])
    f.close()
    leg = gmm.GMMMachine.from_hdf5(B.h5file(path, "r"))
    cur = gmm.GMMMachine(C)
    cur.weights, cur.means = B.copy(w), B.copy(mu)
    cur.variance_thresholds = B.copy(thr)
    cur.variances = B.copy(v)
    p2 = B.h5path("current.h5")
    cur.save(p2)
    new = gmm.GMMMachine.from_hdf5(p2)
    o = Outcome()
    o.equal("legacy/weights", leg.weights, new.weights)
    o.equal("legacy/means", leg.means, new.means)
    o.equal("legacy/variances", leg.variances, new.variances)
    o.equal("legacy/floors", leg.variance_thresholds, new.variance_thresholds)
    X = B.arr("x", (1, D))
    o.equal("legacy/scores", leg.log_likelihood(X), new.log_likelihood(X))
    return o


def _np_shape(a):
    import numpy as _np

    return _np.shape(a)


def sc_stats(B, C, D, how, trips):
    gmm = B.mod("gmm")
    s, SP = sym_stats(B, C, D, "s", data_like=False)
    s.t = B.int("t", 0, 10**6, hint=5)
    saved = dict(n=B.copy(s.n), px=B.copy(s.sum_px), pxx=B.copy(s.sum_pxx), ll=s.log_likelihood, t=s.t)
    cur = s
    for k in range(trips):
        path = B.h5path("s%d.h5" % k)
        if how == "path":
            cur.save(path)
            new = gmm.GMMStats.from_hdf5(path)
        elif how == "file":
            f = B.h5file(path, "w")
            cur.save(f)
            f.close()
            new = gmm.GMMStats.from_hdf5(B.h5file(path, "r"))
        else:
            cur.save(path)
            # an existing container of another shape: both dimensions differ / only one of them
            new = gmm.GMMStats(*{"load": (C + 1, D + 2), "load-features": (C, D + 2), "load-gaussians": (C + 2, D)}[how])
            new.load(B.h5file(path, "r"))
            o_shape = new
        cur = new
    o = Outcome()
    o.equal("stats/n", cur.n, saved["n"])
    o.equal("stats/sum_px", cur.sum_px, saved["px"])
    o.equal("stats/sum_pxx", cur.sum_pxx, saved["pxx"])
    o.equal("stats/log_likelihood", cur.log_likelihood, saved["ll"])
    o.claim("stats/t", cur.t == saved["t"])
    o.claim("stats/shape", (int(cur.n_gaussians), int(cur.n_features)) == (C, D) and tuple(cur.shape) == (C, D))
    o.claim("stats/package-equality", bool(cur == s) and bool(s == cur))
    # the reloaded container is a working statistics object of the file's shape
    summed = cur + s
    o.equal("stats/usable-after-load", summed.n, [2 * v for v in saved["n"]] if not B.sym else [saved["n"][c] + saved["n"][c] for c in range(C)])
    cur.reset()
    o.claim("stats/reset-keeps-shape", tuple(_np_shape(cur.sum_px)) == (C, D))
    return o


def sc_stats_legacy(B, C, D, flat):
    """a legacy-layout statistics file (n_inputs, log_liklihood, ...; arrays possibly flattened)
    loads to the same statistics as its current-format counterpart"""
    gmm = B.mod("gmm")
    import numpy as _np

    s, SP = sym_stats(B, C, D, "s", data_like=False)
    s.t = 7
    path = B.h5path("legacy-stats.h5")
    f = B.h5file(path, "w")
    f["n_gaussians"] = _np.array(C)
    f["n_inputs"] = _np.array(D)
    f["log_liklihood"] = s.log_likelihood
    f["T"] = _np.array(7)
    f["n"] = B.copy(s.n).reshape(1, C) if flat else B.copy(s.n)
    f["sumPx"] = B.copy(s.sum_px).reshape(C * D) if flat else B.copy(s.sum_px)
    f["sumPxx"] = B.copy(s.sum_pxx).reshape(C * D) if flat else B.copy(s.sum_pxx)
    f.close()
    leg = gmm.GMMStats.from_hdf5(B.h5file(path, "r"))
    p2 = B.h5path("current-stats.h5")
    s.save(p2)
    new = gmm.GMMStats.from_hdf5(p2)
    o = Outcome()
    o.equal("legacy-stats/n", leg.n, new.n)
    o.equal("legacy-stats/sum_px", leg.sum_px, new.sum_px)
    o.equal("legacy-stats/sum_pxx", leg.sum_pxx, new.sum_pxx)
    o.equal("legacy-stats/log_likelihood", leg.log_likelihood, new.log_likelihood)
    o.claim("legacy-stats/t", int(leg.t) == int(new.t) == 7)
    o.claim("legacy-stats/shape", tuple(leg.shape) == (C, D) and tuple(_np_shape(leg.sum_px)) == (C, D) and tuple(_np_shape(leg.n)) == (C,))
    o.claim("legacy-stats/package-equality", bool(leg == new) and bool(new == leg))
    return o


def job_machine(P, C, D, kind, floor):
    for how, trips in (("path", 1), ("file", 1), ("load", 1), ("path", 2)):
        P.run("%s-%d" % (how, trips), sc_machine, dict(C=C, D=D, kind=kind, floor=floor, how=how, trips=trips), validate=1)


def sc_legacy_many(B, C):
    """real code only: a legacy-layout file with more than ten gaussians"""
    import numpy as np

    gmm = B.mod("gmm")
    rs = np.random.RandomState(C)
    w = rs.uniform(0.1, 1, C)
    mu, v, thr = rs.normal(size=(C, 2)), rs.uniform(0.5, 2, (C, 2)), np.full((C, 2), 1e-3)
    path = B.h5path("legacy%d.h5" % C)
    f = B.h5file(path, "w")
    f["m_n_gaussians"] = np.array([C])
    f["m_weights"] = w.reshape(1, C)
    for i in range(C):
        g = f.create_group("m_gaussians%d" % i)
        g["m_mean"], g["m_variance"], g["m_variance_thresholds"] = mu[i], v[i], thr[i]
    f.close()
    leg = gmm.GMMMachine.from_hdf5(B.h5file(path, "r"))
    o = Outcome()
    o.equal("legacy-many/means", leg.means, mu)
    o.equal("legacy-many/variances", leg.variances, v)
    o.equal("legacy-many/weights", leg.weights, w)
    return o


def job_misc(P, C, D):
    P.probe_real("legacy-many-gaussians", sc_legacy_many, [dict(C=c) for c in (11, 12, 23)], tries=1)
    for fl in ("scalar", "vector", "matrix"):
        P.run("resave-" + fl, sc_resave, dict(C=C, D=D, floor=fl), validate=1)
    P.run("legacy", sc_legacy, dict(C=C, D=D), validate=1)
    for flat in (False, True):
        P.run("legacy-stats-%s" % ("flat" if flat else "shaped"), sc_stats_legacy, dict(C=C, D=D, flat=flat), validate=1)
    for how, trips in (("path", 1), ("file", 1), ("load", 1), ("load-features", 1), ("load-gaussians", 1), ("path", 2)):
        P.run("stats-%s-%d" % (how, trips), sc_stats, dict(C=C, D=D, how=how, trips=trips), validate=1)


def jobs(tier):
    out = []
    for (C, D) in SIZES[tier]:
        for kind in ("ml", "map"):
            for fl in ("scalar", "vector", "matrix"):
                out.append(("machine@C%dD%d-%s-%s" % (C, D, kind, fl), "job_machine", dict(C=C, D=D, kind=kind, floor=fl)))
        out.append(("misc@C%dD%d" % (C, D), "job_misc", dict(C=C, D=D)))
    return out
