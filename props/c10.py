"""C10 - I-vectors are posterior means; i-vector EM never decreases the likelihood."""
from symexec.engine import Outcome

from . import fa
from .common import make_gmm, total

FUNCTIONS = ["ivector.compute_tct_sigmac_inv", "ivector.compute_tct_sigmac_inv_tc", "ivector.compute_id_tt_sigma_inv_t", "ivector.compute_tt_sigma_inv_fnorm", "ivector.IVectorMachine.project",
             "ivector.IVectorMachine.transform", "ivector.e_step", "ivector.m_step", "ivector.IVectorStats.__add__/__iadd__"]
STUBS = ["numpy.linalg.inv/solve: closed form (dim_t = 1) / uninterpreted functions with contract (dim_t = 2)", "numpy.einsum re-implemented on terms"]
ASSUMPTIONS = ["covariances sigma > 0, counts >= 0 (fractional)", "E-step accumulators are compared with sum_j N_jc (Cov_j + w_j w_j^T), sum_j Fnorm_jc w_j^T, sum_j Snorm_jc, sum_j N_jc written independently;"
               " M-step with T_c = (A_c^-T B_c^T)^T and sigma_c = max(floor, (Snorm_c - diag(B_c T_c^T))/N_c); exact E-step + exact M-step => EM monotonicity (EM theorem, trusted)"]
EXHAUSTIVE = ["update_sigma on/off", "project / e_step after T and sigma are re-assigned on a used machine", "all paths of the any()-guards in m_step (components with all-zero accumulators)", "zero-frame statistics", "1 and 2 training statistics"]
OUTSIDE = ["dim_t > 2, C*D > 4", "the EM theorem", "rounding"]
SIZES = {"quick": [(2, 1, 1), (2, 2, 2)], "thorough": [(2, 1, 1), (2, 2, 2), (3, 1, 2), (2, 3, 2)]}


def bounds(tier):
    return dict(C_D_t=SIZES[tier])


def make_iv(B, C, D, t, **kw):
    iv = B.mod("ivector")
    ubm, UP = make_gmm(B, C, D, "scalar", pre="u")
    m = iv.IVectorMachine(ubm=ubm, dim_t=t, **kw)
    T = B.arr("T", (C, D, t))
    sg = B.arr("sg", (C, D), pos=True)
    m.T, m.sigma, m.dim_c, m.dim_d = B.copy(T), B.copy(sg), C, D
    M = dict(C=C, D=D, t=t, T=[[[T[c, d, k] for k in range(t)] for d in range(D)] for c in range(C)], sg=[[sg[c, d] for d in range(D)] for c in range(C)],
             m=[[UP["mu"][c][d] for d in range(D)] for c in range(C)])
    return m, M


def iv_stats(B, C, D, name, zero=False, pos=False):
    gmm = B.mod("gmm")
    s = gmm.GMMStats(C, D)
    if zero:
        s.n, s.sum_px, s.sum_pxx, s.t = B.np.zeros((C,)), B.np.zeros((C, D)), B.np.zeros((C, D)), 0
        return s, dict(n=[0] * C, F=[[0] * D for _ in range(C)], S=[[0] * D for _ in range(C)])
    n = B.arr(name + "n", (C,), nonneg=not pos, pos=pos)
    F = B.arr(name + "F", (C, D))
    S = B.arr(name + "S", (C, D))
    s.n, s.sum_px, s.sum_pxx, s.t = B.copy(n), B.copy(F), B.copy(S), total([n[c] for c in range(C)])
    return s, dict(n=[n[c] for c in range(C)], F=[[F[c, d] for d in range(D)] for c in range(C)], S=[[S[c, d] for d in range(D)] for c in range(C)])


def o_post(B, M, st):
    """posterior precision, its inverse and mean of w for one statistics object"""
    C, D, t = M["C"], M["D"], M["t"]
    P = [[(1 if a == b else 0) + total([st["n"][c] * M["T"][c][d][a] / M["sg"][c][d] * M["T"][c][d][b] for c in range(C) for d in range(D)]) for b in range(t)] for a in range(t)]
    rhs = [total([M["T"][c][d][a] / M["sg"][c][d] * (st["F"][c][d] - st["n"][c] * M["m"][c][d]) for c in range(C) for d in range(D)]) for a in range(t)]
    Pi = B.inv(P)
    w = [total([Pi[a][b] * rhs[b] for b in range(t)]) for a in range(t)]
    return P, Pi, w


def sc_project(B, C, D, t, zero=False, history=None):
    m, M = make_iv(B, C, D, t)
    s, st = iv_stats(B, C, D, "s", zero)
    if history:
        # the machine is used, then T / sigma are re-assigned: results must follow the current values
        m.project(s)
        B.mod("ivector").e_step(m, [s])
        if history in ("sigma", "both"):
            ns = B.arr("nsg", (C, D), pos=True)
            m.sigma = B.copy(ns)
            M["sg"] = [[ns[c, d] for d in range(D)] for c in range(C)]
        if history in ("T", "both"):
            nT = B.arr("nT", (C, D, t))
            m.T = B.copy(nT)
            M["T"] = [[[nT[c, d, k] for k in range(t)] for d in range(D)] for c in range(C)]
    P, Pi, w = o_post(B, M, st)
    o = Outcome()
    got = m.project(s)
    o.equal("ivector-is-posterior-mean", got, [0] * t if zero else w)
    o.equal("transform", m.transform([s]), [[0] * t if zero else w])
    if t == 1 and not zero:
        # it solves the normal equation
        o.equal("normal-equation", P[0][0] * got[0], total([M["T"][c][d][0] / M["sg"][c][d] * (st["F"][c][d] - st["n"][c] * M["m"][c][d]) for c in range(C) for d in range(D)]))
    return o


def sc_estep(B, C, D, t, J):
    iv = B.mod("ivector")
    m, M = make_iv(B, C, D, t)
    data, sts = [], []
    for j in range(J):
        s, st = iv_stats(B, C, D, "s%d" % j)
        data.append(s)
        sts.append(st)
    acc = iv.e_step(m, data)
    posts = [o_post(B, M, st) for st in sts]
    o = Outcome()
    want_a = [[[total([sts[j]["n"][c] * (posts[j][1][a][b] + posts[j][2][a] * posts[j][2][b]) for j in range(J)]) for b in range(t)] for a in range(t)] for c in range(C)]
    want_f = [[[total([(sts[j]["F"][c][d] - sts[j]["n"][c] * M["m"][c][d]) * posts[j][2][a] for j in range(J)]) for a in range(t)] for d in range(D)] for c in range(C)]
    want_s = [[total([sts[j]["S"][c][d] - 2 * sts[j]["F"][c][d] * M["m"][c][d] + sts[j]["n"][c] * M["m"][c][d] * M["m"][c][d] for j in range(J)]) for d in range(D)] for c in range(C)]
    want_n = [total([sts[j]["n"][c] for j in range(J)]) for c in range(C)]
    o.equal("acc/N(Cov+ww')", acc.nij_sigma_wij2, want_a)
    o.equal("acc/Fnorm w'", acc.fnorm_sigma_wij, want_f)
    o.equal("acc/Snorm", acc.snormij, want_s)
    o.equal("acc/N", acc.nij, want_n)
    # statistics containers add field by field
    two = acc + acc
    o.equal("stats-add", two.nij, [2 * v for v in want_n])
    o.equal("stats-add/A", two.nij_sigma_wij2, [[[2 * want_a[c][a][b] for b in range(t)] for a in range(t)] for c in range(C)])
    three = iv.e_step(m, data)
    three += acc
    three += acc
    o.equal("stats-iadd/N", three.nij, [3 * v for v in want_n])
    o.equal("stats-iadd/A", three.nij_sigma_wij2, [[[3 * want_a[c][a][b] for b in range(t)] for a in range(t)] for c in range(C)])
    o.equal("stats-iadd/B", three.fnorm_sigma_wij, [[[3 * want_f[c][d][a] for a in range(t)] for d in range(D)] for c in range(C)])
    o.equal("stats-iadd/S", three.snormij, [[3 * want_s[c][d] for d in range(D)] for c in range(C)])
    o.equal("stats-iadd-operand-unchanged", acc.nij, want_n)
    return o


def sc_mstep(B, C, D, t, update_sigma, zero_comp=None):
    iv = B.mod("ivector")
    floor = B.real("floor", pos=True)
    m, M = make_iv(B, C, D, t, update_sigma=update_sigma, variance_floor=floor)
    st = iv.IVectorStats(C, D, t)
    A = B.arr("A", (C, t, t))
    Bf = B.arr("Bf", (C, D, t))
    Sn = B.arr("Sn", (C, D))
    n = B.arr("n", (C,), nonneg=True)
    if zero_comp is not None:
        # a component without any frames: all its accumulators are exactly zero
        for arr_, val in ((A, 0), (Bf, 0), (Sn, 0)):
            arr_[zero_comp] = val
        n[zero_comp] = 0
    st.nij_sigma_wij2, st.fnorm_sigma_wij, st.snormij, st.nij = B.copy(A), B.copy(Bf), B.copy(Sn), B.copy(n)
    for c in range(C):
        if c != zero_comp:
            B.assume(n[c] > 0)
            B.assume(A[c, 0, 0] > 0)  # N (Cov + w w') has a positive diagonal
    old_sigma = [[M["sg"][c][d] for d in range(D)] for c in range(C)]
    iv.m_step(m, st)
    o = Outcome()
    for c in range(C):
        if c == zero_comp:
            o.equal("T-zero-component-%d" % c, m.T[c], [[0] * t for _ in range(D)])
            continue
        AcT = [[A[c, b, a] for b in range(t)] for a in range(t)]
        Ai = B.inv(AcT)
        Xc = [[total([Ai[a][l] * Bf[c, d, l] for l in range(t)]) for d in range(D)] for a in range(t)]
        o.equal("T-solves-normal-equations-%d" % c, m.T[c], [[Xc[a][d] for a in range(t)] for d in range(D)])
        if update_sigma:
            diag = [total([Bf[c, d, a] * Xc[a][d] for a in range(t)]) for d in range(D)]
            o.equal("sigma-%d" % c, m.sigma[c], [B.maximum(floor, (Sn[c, d] - diag[d]) / n[c]) for d in range(D)])
    if update_sigma:
        o.fin("sigma-finite", m.sigma)
        for c in range(C):
            for d in range(D):
                if c == zero_comp:
                    # the untouched previous value may itself be below a (new) floor: it is floored as well
                    o.equal("sigma-zero-count-%d%d" % (c, d), m.sigma[c][d], B.maximum(floor, old_sigma[c][d]))
                o.claim("sigma-at-or-above-floor-%d%d" % (c, d), m.sigma[c][d] >= floor)
    else:
        o.equal("sigma-kept", m.sigma, old_sigma)
    o.fin("T-finite", m.T)
    return o


def sc_em_observable(B, update_sigma, seed, bag):
    """real code only: the marginal likelihood of the training statistics (w integrated out) after
    k and k+1 iterations of the real fit from the same start"""
    import numpy as np

    gmm = B.mod("gmm")
    iv = B.mod("ivector")
    rs = np.random.RandomState(seed)
    C, D, t, J = 3, 2, 2, 12
    ubm = gmm.GMMMachine(C)
    ubm.means = rs.normal(size=(C, D))
    ubm.variances = rs.uniform(0.5, 1.5, (C, D))
    ubm.weights = np.full(C, 1.0 / C)
    data = []
    for j in range(J):
        Xj = ubm.means[rs.randint(0, C, 25)] + rs.normal(scale=1.0, size=(25, D)) + rs.normal(scale=0.8, size=(1, D))
        data.append(ubm.acc_stats(Xj))

    def ll(m):
        tot = 0.0
        for s in data:
            Fn = s.sum_px - s.n[:, None] * ubm.means
            Sn = s.sum_pxx - 2 * s.sum_px * ubm.means + s.n[:, None] * ubm.means**2
            P = np.eye(t) + sum(s.n[c] * m.T[c].T @ (m.T[c] / m.sigma[c][:, None]) for c in range(C))
            b = sum(m.T[c].T @ (Fn[c] / m.sigma[c]) for c in range(C))
            tot += -0.5 * np.sum(s.n[:, None] * np.log(m.sigma) + Sn / m.sigma) - 0.5 * np.linalg.slogdet(P)[1] + 0.5 * b @ np.linalg.solve(P, b)
        return float(tot)

    lls = []
    for k in range(1, 6):
        m = iv.IVectorMachine(ubm=ubm, dim_t=t, max_iterations=k, update_sigma=update_sigma, variance_floor=1e-6)
        np.random.seed(seed)
        m.fit(list(data) if not bag else B.bag([data[:5], data[5:6], data[6:]]))
        lls.append(ll(m))
    o = Outcome()
    o.info["marginal_log_likelihoods"] = lls
    for k in range(4):
        o.claim("marginal-likelihood-not-decreasing-%d" % k, lls[k + 1] >= lls[k] - 1e-8 * abs(lls[k]))
    return o


def job_observable(P):
    P.probe_real("em-observable", sc_em_observable, [dict(update_sigma=us, seed=sd, bag=bg) for us in (True, False) for sd in (1, 2) for bg in (False, True)], tries=1)


def _la(t):
    return "closed" if t <= 1 else "uf"


def job_project(P, C, D, t):
    P.run("project", sc_project, dict(C=C, D=D, t=t), linalg=_la(t), validate=1)
    P.run("project-zero-frames", sc_project, dict(C=C, D=D, t=t, zero=True), linalg=_la(t), validate=1)
    for h in ("sigma", "T", "both"):
        P.run("project-after-reassigning-" + h, sc_project, dict(C=C, D=D, t=t, history=h), linalg=_la(t), validate=1)
    for J in (1, 2):
        P.run("estep-J%d" % J, sc_estep, dict(C=C, D=D, t=t, J=J), linalg=_la(t), validate=1)


def job_mstep(P, C, D, t, update_sigma, zero_comp):
    P.run("mstep", sc_mstep, dict(C=C, D=D, t=t, update_sigma=update_sigma, zero_comp=zero_comp), linalg=_la(t), validate=1, max_paths=2000)


def jobs(tier):
    out = [("observable", "job_observable", {})]
    for (C, D, t) in SIZES[tier]:
        out.append(("project@C%dD%dt%d" % (C, D, t), "job_project", dict(C=C, D=D, t=t)))
        for us in (True, False):
            for zc in (None, 0, C - 1):
                out.append(("mstep@C%dD%dt%d-sigma%d-zero%s" % (C, D, t, us, zc), "job_mstep", dict(C=C, D=D, t=t, update_sigma=us, zero_comp=zc)))
    return out
