"""Shared builders/oracles for the factor-analysis family (ISV, JFA): C07, C09, C11, C12, C15, C16."""
from .common import make_gmm, total


def make_fa(B, kind, C, D, rU, rV=None, pre="", **kw):
    """ISV/JFA machine on a symbolic UBM with symbolic U, V, D.  Returns (machine, M) with M the
    oracle's view: m, S (variance supervector), U[cd][r], V[cd][r], Dv[cd], sizes."""
    fa = B.mod("factor_analysis")
    ubm, UP = make_gmm(B, C, D, "scalar", pre=pre + "u")
    if kind == "isv":
        m = fa.ISVMachine(r_U=rU, ubm=ubm, **kw)
    else:
        m = fa.JFAMachine(r_U=rU, r_V=rV, ubm=ubm, **kw)
    U = B.arr(pre + "U", (C * D, rU))
    m.U = B.copy(U)
    Dv = B.arr(pre + "Dd", (C * D,))
    m.D = B.copy(Dv)
    V = None
    if kind == "jfa":
        V = B.arr(pre + "V", (C * D, rV))
        m.V = B.copy(V)
    M = dict(
        kind=kind, C=C, D=D, rU=rU, rV=rV or 0, CD=C * D,
        m=[UP["mu"][c][d] for c in range(C) for d in range(D)],
        S=[UP["v"][c][d] for c in range(C) for d in range(D)],
        U=[[U[i, r] for r in range(rU)] for i in range(C * D)],
        V=[[V[i, r] for r in range(rV)] for i in range(C * D)] if V is not None else None,
        Dv=[Dv[i] for i in range(C * D)],
        UP=UP, ubm=ubm,
    )
    return m, M


def make_stats(B, C, D, name, zero=False):
    gmm = B.mod("gmm")
    s = gmm.GMMStats(C, D)
    n = B.arr(name + "n", (C,), nonneg=True)
    F = B.arr(name + "F", (C, D))
    t = total([n[c] for c in range(C)])
    s.n, s.sum_px, s.t = B.copy(n), B.copy(F), t
    s.sum_pxx = B.np.zeros((C, D))
    O = dict(n=[n[c] for c in range(C)], F=[F[c, d] for c in range(C) for d in range(D)], N=[n[c] for c in range(C) for d in range(D)], t=t)
    return s, O


def matvec(A, x):
    return [total([A[i][j] * x[j] for j in range(len(x))]) for i in range(len(A))]


def solve(B, P, r):
    """inv(P) @ r through the backend's inverse (closed form / UF contract / LAPACK)"""
    Pi = B.inv(P)
    n = len(r)
    return [total([Pi[i][j] * r[j] for j in range(n)]) for i in range(n)]


def precision(M, W, N):
    """I + W^T diag(N/S) W   (W: [cd][r])"""
    r = len(W[0])
    CD = len(W)
    return [[(1 if a == b else 0) + total([W[i][a] * N[i] / M["S"][i] * W[i][b] for i in range(CD)]) for b in range(r)] for a in range(r)]


def off(M, y=None, xh=None, z=None):
    """V y + U x + D z  (any may be None) as a supervector"""
    CD = M["CD"]
    out = [0] * CD
    for i in range(CD):
        v = 0
        if y is not None and M["V"] is not None:
            v = v + total([M["V"][i][r] * y[r] for r in range(M["rV"])])
        if xh is not None:
            v = v + total([M["U"][i][r] * xh[r] for r in range(M["rU"])])
        if z is not None:
            v = v + M["Dv"][i] * z[i]
        out[i] = v
    return out


def o_y(B, M, sess, xs, z):
    """conditional mode of y given x_h, z:  (I + V'S^-1 N V)^-1 V' S^-1 sum_h (F_h - N_h (m + D z + U x_h))"""
    CD = M["CD"]
    N = [total([s["N"][i] for s in sess]) for i in range(CD)]
    res = [0] * CD
    for h, s in enumerate(sess):
        o = off(M, None, xs[h], z)
        for i in range(CD):
            res[i] = res[i] + s["F"][i] - s["N"][i] * (M["m"][i] + o[i])
    rhs = [total([M["V"][i][r] / M["S"][i] * res[i] for i in range(CD)]) for r in range(M["rV"])]
    return solve(B, precision(M, M["V"], N), rhs)


def o_x(B, M, s, y, z):
    """conditional mode of one session's x:  (I + U'S^-1 N_h U)^-1 U' S^-1 (F_h - N_h (m + V y + D z))"""
    CD = M["CD"]
    o = off(M, y, None, z)
    res = [s["F"][i] - s["N"][i] * (M["m"][i] + o[i]) for i in range(CD)]
    rhs = [total([M["U"][i][r] / M["S"][i] * res[i] for i in range(CD)]) for r in range(M["rU"])]
    return solve(B, precision(M, M["U"], s["N"]), rhs)


def o_z(B, M, sess, y, xs):
    """conditional mode of z (diagonal):  D/S * sum_h (F_h - N_h (m + V y + U x_h)) / (1 + D^2 N / S)"""
    CD = M["CD"]
    N = [total([s["N"][i] for s in sess]) for i in range(CD)]
    res = [0] * CD
    for h, s in enumerate(sess):
        o = off(M, y, xs[h], None)
        for i in range(CD):
            res[i] = res[i] + s["F"][i] - s["N"][i] * (M["m"][i] + o[i])
    return [M["Dv"][i] / M["S"][i] * res[i] / (1 + M["Dv"][i] * M["Dv"][i] * N[i] / M["S"][i]) for i in range(CD)]


def o_enroll(B, M, sess, iterations):
    H = len(sess)
    y = [0] * M["rV"] if M["kind"] == "jfa" else None
    xs = [[0] * M["rU"] for _ in range(H)]
    z = [0] * M["CD"]
    for _ in range(iterations):
        if M["kind"] == "jfa":
            y = o_y(B, M, sess, xs, z)
        xs = [o_x(B, M, sess[h], y, z) for h in range(H)]
        z = o_z(B, M, sess, y, xs)
    return y, xs, z


def grad_y(M, sess, y, xs, z):
    CD = M["CD"]
    res = [0] * CD
    for h, s in enumerate(sess):
        o = off(M, y, xs[h], z)
        for i in range(CD):
            res[i] = res[i] + s["F"][i] - s["N"][i] * (M["m"][i] + o[i])
    return [total([M["V"][i][r] / M["S"][i] * res[i] for i in range(CD)]) - y[r] for r in range(M["rV"])]


def grad_x(M, s, y, xh, z):
    CD = M["CD"]
    o = off(M, y, xh, z)
    res = [s["F"][i] - s["N"][i] * (M["m"][i] + o[i]) for i in range(CD)]
    return [total([M["U"][i][r] / M["S"][i] * res[i] for i in range(CD)]) - xh[r] for r in range(M["rU"])]


def grad_z(M, sess, y, xs, z):
    CD = M["CD"]
    res = [0] * CD
    for h, s in enumerate(sess):
        o = off(M, y, xs[h], z)
        for i in range(CD):
            res[i] = res[i] + s["F"][i] - s["N"][i] * (M["m"][i] + o[i])
    return [M["Dv"][i] / M["S"][i] * res[i] - z[i] for i in range(CD)]
