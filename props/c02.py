"""C02 - GMM statistics are responsibility-weighted moments, additive over any split."""
import functools
import itertools
import operator

from symexec.engine import Outcome

from .common import compositions, make_gmm, o_stats, split_rows, total

FUNCTIONS = ["gmm.e_step", "gmm.GMMStats.__init__", "gmm.GMMStats.__add__", "gmm.GMMStats.__iadd__", "gmm.GMMMachine.acc_stats",
             "gmm.GMMMachine.transform/stats_per_sample", "gmm.log_weighted_likelihood", "gmm.reduce_loglikelihood"]
STUBS = ["numpy.logaddexp.reduce = ln(sum ex(.))", "dask.array model (blocks, reduction)"]
ASSUMPTIONS = ["machine as in C01 (weights>0, floors>0)", "real arithmetic"]
EXHAUSTIVE = ["all 2^(N-1) compositions of the rows", "all 2-block set partitions of the rows (non-consecutive blocks)", "+ / += / functools.reduce(operator.iadd)",
              "shape integers 1..3 symbolic (refusal)"]
OUTSIDE = ["sizes beyond those listed", "float rounding (addition order)"]
SIZES = {"quick": [(2, 2, 3), (2, 1, 4), (3, 2, 2)], "thorough": [(2, 2, 3), (2, 1, 4), (3, 2, 2), (2, 2, 5), (3, 3, 3), (4, 1, 3)]}


def bounds(tier):
    return dict(sizes_C_D_N=SIZES[tier], splits="all compositions + all 2-block partitions", shape_ints="1..3")


def stats_fields(s):
    return dict(t=s.t, n=s.n, px=s.sum_px, pxx=s.sum_pxx, ll=s.log_likelihood)


def want_fields(w):
    return dict(t=w["t"], n=w["n"], px=w["px"], pxx=w["pxx"], ll=w["ll"])


def eq_stats(o, name, s, w):
    g, ww = stats_fields(s), want_fields(w)
    for k in g:
        o.equal("%s/%s" % (name, k), g[k], ww[k])


def sc_moments(B, C, D, N):
    m, P = make_gmm(B, C, D, "matrix")
    X = B.arr("x", (N, D))
    o = Outcome()
    s = m.acc_stats(X)
    w = o_stats(B, P, X)
    eq_stats(o, "moments", s, w)
    o.equal("count-is-N", s.t, N)
    if C <= 3:  # (at C = 4 this non-linear identity does not decide reliably: not claimed there)
        o.equal("resp-sum-to-N", total([s.n[c] for c in range(C)]), N)
    for c in range(C):
        o.claim("resp-nonneg-%d" % c, s.n[c] >= 0)
    # transform = per-sample statistics
    per = m.transform(X)
    o.equal("transform-len", len(per), N)
    for i in range(N):
        eq_stats(o, "per-sample-%d" % i, per[i], o_stats(B, P, X[i : i + 1]))
    # a single vector is one sample
    eq_stats(o, "single-vector", m.acc_stats(X[0]), o_stats(B, P, X[0:1]))
    return o


def sc_split(B, C, D, N, blocks, how):
    """blocks: tuple of row-index tuples forming a partition of range(N)"""
    m, P = make_gmm(B, C, D, "matrix")
    X = B.arr("x", (N, D))
    o = Outcome()
    parts = [m.acc_stats(X[list(b)]) for b in blocks]
    if how == "add":
        s = parts[0]
        for p in parts[1:]:
            s = s + p
    elif how == "iadd":
        s = parts[0]
        for p in parts[1:]:
            s += p
    elif how == "fresh-acc":
        # accumulate into a fresh (empty) container; the operands must stay what they were and
        # remain usable for a second recombination
        s = B.mod("gmm").GMMStats(C, D)
        for p in parts:
            s += p
        for b, p in zip(blocks, parts):
            eq_stats(o, "operand-unchanged-%s" % "".join(map(str, b)), p, o_stats(B, P, [X[i] for i in b]))
        again = parts[0]
        for p in parts[1:]:
            again = again + p
        eq_stats(o, "second-recombination", again, o_stats(B, P, X))
    else:
        s = functools.reduce(operator.iadd, parts)
    eq_stats(o, "split-" + how, s, o_stats(B, P, X))
    return o


def sc_dask(B, C, D, N, chunks):
    m, P = make_gmm(B, C, D, "matrix")
    X = B.arr("x", (N, D))
    o = Outcome()
    s = m.acc_stats(B.darr(X, (chunks, (D,))))
    eq_stats(o, "dask", s, o_stats(B, P, X))
    return o


def sc_refuse(B, h, op):
    """shape integers are symbolic (1..3); arrays exist for the hinted/concrete shape"""
    gmm = B.mod("gmm")
    names = ["c1", "d1", "c2", "d2"]
    iv = [B.int(nm, 1, 3, hint=hh) for nm, hh in zip(names, h)]
    conc = [v.hint if B.sym else v for v in iv]
    s1 = gmm.GMMStats(conc[0], conc[1])
    s2 = gmm.GMMStats(conc[2], conc[3])
    s1.n_gaussians, s1.n_features, s2.n_gaussians, s2.n_features = iv
    differ = (iv[0] != iv[2]) | (iv[1] != iv[3]) if B.sym else (iv[0] != iv[2] or iv[1] != iv[3])
    raised = False
    try:
        if op == "add":
            r = s1 + s2
        else:
            s1 += s2
            r = s1
    except ValueError:
        raised = True
    o = Outcome()
    if B.sym:
        from symexec.core import SB
        import z3

        o.claim("refused-iff-shapes-differ", SB(differ.z == z3.BoolVal(raised)))
    else:
        o.claim("refused-iff-shapes-differ", bool(differ) == raised)
    if not raised:
        o.equal("result-shape", [list(r.n.shape), list(r.sum_px.shape), list(r.sum_pxx.shape)], [[conc[0]], [conc[0], conc[1]], [conc[0], conc[1]]])
    return o


def job_moments(P, C, D, N):
    P.run("moments", sc_moments, dict(C=C, D=D, N=N))


def job_split(P, C, D, N, blocks):
    for how in ("add", "iadd", "reduce", "fresh-acc"):
        P.run("split-%s" % how, sc_split, dict(C=C, D=D, N=N, blocks=blocks, how=how), validate=1 if how == "add" else 0)


def job_dask(P, C, D, N, chunks):
    P.run("dask", sc_dask, dict(C=C, D=D, N=N, chunks=chunks), validate=1)


def sc_int_data(B, dtype):
    """integer-typed features (e.g. 8-bit images): statistics are those of the same numbers as floats"""
    import numpy as np

    m, P = make_gmm(B, 2, 2, "matrix")
    Xf = np.array([[200.0, 3.0], [17.0, 120.0], [90.0, 64.0], [255.0, 0.0]])
    X = Xf.astype(dtype)
    o = Outcome()
    eq_stats(o, "integer-data", m.acc_stats(X), o_stats(B, P, Xf))
    return o


def job_boundary(P):
    P.probe_real("integer-data", sc_int_data, [dict(dtype=d) for d in ("uint8", "int16", "int32", "float32")], tries=2)
    """witness search beyond the symbolic bound: the moments/additivity scenarios on the real code
    at row counts around every integer constant that occurs in the source"""
    from symexec import loader

    sizes = sorted({n for c in loader.int_constants() for n in (c - 1, c, c + 1, 2 * c + 1) if 8 <= n <= 5000})
    P.probe_real("boundary-moments", sc_moments_only, [dict(C=2, D=1, N=n) for n in sizes], tries=1)
    P.probe_real("boundary-split", sc_split_big, [dict(C=2, D=1, N=n) for n in sizes], tries=1)


def sc_moments_only(B, C, D, N):
    m, P = make_gmm(B, C, D, "matrix")
    X = B.arr("x", (N, D))
    o = Outcome()
    eq_stats(o, "moments", m.acc_stats(X), o_stats(B, P, X))
    return o


def sc_split_big(B, C, D, N):
    m, P = make_gmm(B, C, D, "matrix")
    X = B.arr("x", (N, D))
    o = Outcome()
    h = N // 2
    s = m.acc_stats(X[:h]) + m.acc_stats(X[h:])
    w = m.acc_stats(X)
    o.equal("split-equals-whole/px", s.sum_px, w.sum_px)
    o.equal("split-equals-whole/n", s.n, w.n)
    return o


def job_refuse(P):
    for h in [(c, d, c, d) for c in (1, 2) for d in (1, 2)]:
        for op in ("add", "iadd"):
            P.run("refuse-%s-%s" % ("".join(map(str, h)), op), sc_refuse, dict(h=h, op=op), validate=0)


def two_block_partitions(n):
    out = []
    for mask in range(1, 2 ** (n - 1)):
        a = tuple(i for i in range(n) if not (mask >> i) & 1)
        b = tuple(i for i in range(n) if (mask >> i) & 1)
        out.append((a, b))
    return out


def jobs(tier):
    out = []
    for (C, D, N) in SIZES[tier]:
        out.append(("moments@C%dD%dN%d" % (C, D, N), "job_moments", dict(C=C, D=D, N=N)))
        seen = set()
        for comp in compositions(N):
            pos, blocks = 0, []
            for k in comp:
                blocks.append(tuple(range(pos, pos + k)))
                pos += k
            seen.add(tuple(blocks))
        for pb in two_block_partitions(N):
            seen.add(tuple(pb))
        for blocks in sorted(seen):
            nm = "|".join("".join(map(str, b)) for b in blocks)
            out.append(("split@C%dD%dN%d-%s" % (C, D, N, nm), "job_split", dict(C=C, D=D, N=N, blocks=blocks)))
        if D <= 2:
            for comp in compositions(N):
                out.append(("dask@C%dD%dN%d-%s" % (C, D, N, "+".join(map(str, comp))), "job_dask", dict(C=C, D=D, N=N, chunks=comp)))
    out.append(("refuse", "job_refuse", {}))
    out.append(("boundary", "job_boundary", {}))
    return out
