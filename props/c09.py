"""C09 - Each JFA training phase is exact EM: its marginal likelihood never decreases."""
from symexec.engine import Outcome

from . import fa
from .common import total

FUNCTIONS = ["factor_analysis.JFAMachine.e_step_v/m_step_v/finalize_v", "JFAMachine.e_step_u/m_step_u/finalize_u", "JFAMachine.e_step_d/m_step_d", "JFAMachine.fit (phase sequencing)",
             "FactorAnalysisBase.compute_accumulators_V/U/D", "FactorAnalysisBase.update_y/compute_latent_x/update_z", "FactorAnalysisBase.update_U", "FactorAnalysisBase.initialize/initialize_XYZ",
             "FactorAnalysisBase._sum_n_statistics/_sum_f_statistics", "reduce_iadd", "mult_along_axis"]
STUBS = ["numpy.linalg.inv: closed form (rank 1) / uninterpreted with contract + symmetry (rank 2)", "phase sequencing: the phase methods of the instance are replaced by recording stubs"]
ASSUMPTIONS = ["UBM variances > 0, counts >= 0, labels 0..K-1 (documented)", "per phase: (E) the point estimate and the matrix added to the outer product are the posterior mean and covariance of that phase's model"
               " given the hand-over values; (M) the accumulators are sum N E[l l'] and sum (residual first-order statistics) E[l]' with the residual excluding exactly the other blocks' hand-over"
               " estimates, and the update solves the normal equations.  Exact E + exact M => the phase's marginal likelihood does not decrease (EM theorem, trusted)"]
EXHAUSTIVE = ["3 phases", "class layouts (1,2) and (2,1) sessions, labels sorted and interleaved", "list of one or two accumulator tuples handed to the M-steps", "E-steps called on all statistics and, as Dask tasks are, on one class's statistics with the global accumulators", "E-step after U/V/D were re-assigned through the setters on a used machine"]
OUTSIDE = ["ranks > 2, C*D > 2 at rank 2", "the EM theorem; log-determinant terms of the marginal likelihood", "rounding"]
SIZES = {"quick": [(2, 1, 1, 1), (2, 1, 2, 2), (2, 1, 1, 2)], "thorough": [(2, 1, 1, 1), (2, 1, 2, 2), (2, 1, 1, 2), (2, 1, 2, 1), (2, 2, 1, 1), (1, 2, 2, 2)]}
LAYOUTS = {"1+2": [0, 1, 1], "2+1-interleaved": [0, 1, 0]}


def bounds(tier):
    return dict(C_D_rU_rV=SIZES[tier], layouts=LAYOUTS)


def _la(r):
    return "closed" if r <= 1 else "uf"


def setup(B, C, D, rU, rV, labels):
    m, M = fa.make_fa(B, "jfa", C, D, rU, rV)
    X, sess = [], []
    for h in range(len(labels)):
        s, O = fa.make_stats(B, C, D, "s%d" % h)
        X.append(s)
        sess.append(O)
    K = len(set(labels))
    by_class = [[h for h in range(len(labels)) if labels[h] == k] for k in range(K)]
    n_acc = m._sum_n_statistics(X, labels, K)
    f_acc = m._sum_f_statistics(X, labels, K)
    return m, M, X, sess, K, by_class, n_acc, f_acc


def inv_of(B, P):
    return B.inv(P)


def pick(X, labels, by_class, only):
    """the Dask calling convention: an E-step task receives the statistics and labels of ONE class
    together with the global n_acc/f_acc/latent lists"""
    if only is None:
        return X, labels, range(len(by_class))
    return [X[h] for h in by_class[only]], [only] * len(by_class[only]), [only]


def sc_phase_v(B, C, D, rU, rV, labels, split, only=None, history=False):
    m, M, X, sess, K, by_class, n_acc, f_acc = setup(B, C, D, rU, rV, labels)
    CD = C * D
    spc = [len(g) for g in by_class]
    Xc, yc, classes = pick(X, labels, by_class, only)
    if history:
        m.e_step_v(Xc, yc, spc, n_acc, f_acc)
        nV = B.arr("nV", (CD, rV))
        m.V = B.copy(nV)
        M["V"] = [[nV[i, r] for r in range(rV)] for i in range(CD)]
    acc = m.e_step_v(Xc, yc, spc, n_acc, f_acc)
    o = Outcome()
    zeros_x = lambda g: [[0] * rU for _ in g]
    ys, covs, Ns, res = [], [], [], []
    for k, g in enumerate(by_class):
        ss = [sess[h] for h in g]
        ys.append(fa.o_y(B, M, ss, zeros_x(g), [0] * CD))
        N = [total([s["N"][i] for s in ss]) for i in range(CD)]
        Ns.append(N)
        covs.append(inv_of(B, fa.precision(M, M["V"], N)))
        res.append([total([s["F"][i] - s["N"][i] * M["m"][i] for s in ss]) for i in range(CD)])
    wA1 = [[[total([Ns[k][c * D] * (covs[k][a][b] + ys[k][a] * ys[k][b]) for k in classes]) for b in range(rV)] for a in range(rV)] for c in range(C)]
    wA2 = [[total([res[k][i] * ys[k][a] for k in classes]) for a in range(rV)] for i in range(CD)]
    o.equal("E/A1-is-sum-N-E[yy']", acc[0], wA1)
    o.equal("E/A2-is-sum-residual-E[y]'", acc[1], wA2)
    if only is None:
        o.equal("finalize_v-is-posterior-mean", m.finalize_v(X, labels, spc, n_acc, f_acc), ys)
    # M-step from arbitrary accumulators
    A1 = B.arr("A1", (C, rV, rV))
    A2 = B.arr("A2", (CD, rV))
    if rV == 1:
        for c in range(C):
            B.assume(A1[c, 0, 0] > 0)
    lst = [(B.copy(A1), B.copy(A2))] if not split else [(B.copy(A1) * 0.25, B.copy(A2) * 0.5), (B.copy(A1) * 0.75, B.copy(A2) * 0.5)]
    V = m.m_step_v(lst)
    wV = []
    for c in range(C):
        Ai = inv_of(B, [[A1[c, a, b] for b in range(rV)] for a in range(rV)])
        for d in range(D):
            wV.append([total([A2[c * D + d, k] * Ai[k][r] for k in range(rV)]) for r in range(rV)])
    o.equal("M/V-solves-normal-equations", V, wV)
    o.equal("M/V-stored", m.V, wV)
    return o


def sc_phase_u(B, C, D, rU, rV, labels, split, only=None, history=False):
    m, M, X, sess, K, by_class, n_acc, f_acc = setup(B, C, D, rU, rV, labels)
    CD = C * D
    spc = [len(g) for g in by_class]
    Y = B.arr("y", (K, rV))
    yl = [[Y[k, r] for r in range(rV)] for k in range(K)]
    Xc, yc, classes = pick(X, labels, by_class, only)
    if history:
        m.e_step_u(Xc, yc, spc, B.copy(Y))
        nU = B.arr("nU", (CD, rU))
        m.U = B.copy(nU)
        M["U"] = [[nU[i, r] for r in range(rU)] for i in range(CD)]
    acc = m.e_step_u(Xc, yc, spc, B.copy(Y))
    o = Outcome()
    wA1 = [[[0] * rU for _ in range(rU)] for _ in range(C)]
    wA2 = [[0] * rU for _ in range(CD)]
    xs_all = []
    for k, g in enumerate(by_class):
        xs_k = []
        for h in g:
            if k not in classes:
                xs_k.append(None)
                continue
            x = fa.o_x(B, M, sess[h], yl[k], None)
            cov = inv_of(B, fa.precision(M, M["U"], sess[h]["N"]))
            offs = fa.off(M, yl[k], None, None)
            for c in range(C):
                for a in range(rU):
                    for b in range(rU):
                        wA1[c][a][b] = wA1[c][a][b] + sess[h]["N"][c * D] * (cov[a][b] + x[a] * x[b])
            for i in range(CD):
                r_ = sess[h]["F"][i] - sess[h]["N"][i] * (M["m"][i] + offs[i])
                for a in range(rU):
                    wA2[i][a] = wA2[i][a] + r_ * x[a]
            xs_k.append(x)
        xs_all.append(xs_k)
    o.equal("E/A1-is-sum-N-E[xx']", acc[0], wA1)
    o.equal("E/A2-is-sum-residual-E[x]'", acc[1], wA2)
    if only is None:
        fx = m.finalize_u(X, labels, spc, B.copy(Y))
        o.equal("finalize_u-is-posterior-mean", [fx[k] for k in range(K)], [[[xs_all[k][j][r] for j in range(len(by_class[k]))] for r in range(rU)] for k in range(K)])
    A1 = B.arr("A1", (C, rU, rU))
    A2 = B.arr("A2", (CD, rU))
    if rU == 1:
        for c in range(C):
            B.assume(A1[c, 0, 0] > 0)
    lst = [(B.copy(A1), B.copy(A2))] if not split else [(B.copy(A1) * 0.25, B.copy(A2) * 0.5), (B.copy(A1) * 0.75, B.copy(A2) * 0.5)]
    U = m.m_step_u(lst)
    wU = []
    for c in range(C):
        Ai = inv_of(B, [[A1[c, a, b] for b in range(rU)] for a in range(rU)])
        for d in range(D):
            wU.append([total([A2[c * D + d, k] * Ai[k][r] for k in range(rU)]) for r in range(rU)])
    o.equal("M/U-solves-normal-equations", U, wU)
    o.equal("M/U-stored", m.U, wU)
    return o


def sc_phase_d(B, C, D, rU, rV, labels, split, only=None, history=False):
    m, M, X, sess, K, by_class, n_acc, f_acc = setup(B, C, D, rU, rV, labels)
    CD = C * D
    spc = [len(g) for g in by_class]
    Y = B.arr("y", (K, rV))
    yl = [[Y[k, r] for r in range(rV)] for k in range(K)]
    LX = [B.arr("x%d" % k, (rU, len(g))) for k, g in enumerate(by_class)]
    xl = [[[LX[k][r, j] for r in range(rU)] for j in range(len(g))] for k, g in enumerate(by_class)]
    Xc, yc, classes = pick(X, labels, by_class, only)
    if history:
        m.e_step_d(Xc, yc, spc, [B.copy(a) for a in LX], B.copy(Y), n_acc, f_acc)
        nD = B.arr("nD", (CD,))
        m.D = B.copy(nD)
        M["Dv"] = [nD[i] for i in range(CD)]
    acc = m.e_step_d(Xc, yc, spc, [B.copy(a) for a in LX], B.copy(Y), n_acc, f_acc)
    o = Outcome()
    wA1, wA2 = [0] * CD, [0] * CD
    for k, g in enumerate(by_class):
        if k not in classes:
            continue
        ss = [sess[h] for h in g]
        z = fa.o_z(B, M, ss, yl[k], xl[k])
        N = [total([s["N"][i] for s in ss]) for i in range(CD)]
        for i in range(CD):
            var = 1 / (1 + M["Dv"][i] * M["Dv"][i] * N[i] / M["S"][i])
            wA1[i] = wA1[i] + (var + z[i] * z[i]) * N[i]
            r_ = 0
            for j, s in enumerate(ss):
                o_ = fa.off(M, yl[k], xl[k][j], None)
                r_ = r_ + s["F"][i] - s["N"][i] * (M["m"][i] + o_[i])
            wA2[i] = wA2[i] + r_ * z[i]
    o.equal("E/A1-is-sum-N-E[z^2]", acc[0], wA1)
    o.equal("E/A2-is-sum-residual-E[z]", acc[1], wA2)
    A1 = B.arr("A1", (CD,), pos=True)
    A2 = B.arr("A2", (CD,))
    lst = [(B.copy(A1), B.copy(A2))] if not split else [(B.copy(A1) * 0.25, B.copy(A2) * 0.5), (B.copy(A1) * 0.75, B.copy(A2) * 0.5)]
    Dn = m.m_step_d(lst)
    o.equal("M/D-is-A2-over-A1", Dn, [A2[i] / A1[i] for i in range(CD)])
    o.equal("M/D-stored", m.D, [A2[i] / A1[i] for i in range(CD)])
    return o


def sc_sequencing(B, iters):
    """fit() runs V, then U, then D, handing over finalize_v's y and finalize_u's x"""
    m, M = fa.make_fa(B, "jfa", 1, 1, 1, 1, em_iterations=iters)
    s0, _ = fa.make_stats(B, 1, 1, "a")
    s1, _ = fa.make_stats(B, 1, 1, "b")
    log = []
    Y, Xl = object(), object()

    def rec(name, ret=None):
        def f(*a, **k):
            log.append((name, k.get("latent_y") is Y, k.get("latent_x") is Xl))
            return ret if ret is not None else (name,)

        return f

    m.e_step_v, m.m_step_v, m.finalize_v = rec("e_v"), rec("m_v"), rec("fin_v", Y)
    m.e_step_u, m.m_step_u, m.finalize_u = rec("e_u"), rec("m_u"), rec("fin_u", Xl)
    m.e_step_d, m.m_step_d = rec("e_d"), rec("m_d")
    ret = m.fit([s0, s1], [0, 1])
    want = [("e_v", False, False), ("m_v", False, False)] * iters + [("fin_v", False, False)] + [("e_u", True, False), ("m_u", False, False)] * iters + [("fin_u", True, False)] + [("e_d", True, True), ("m_d", False, False)] * iters
    o = Outcome()
    o.claim("phase-order-and-hand-over", log == want)
    o.info["log"] = [l[0] for l in log]
    o.claim("fit-returns-self", ret is m)
    return o


def sc_phase_observable(B, seed):
    """real code only: the exact marginal likelihood of each phase's factor-analysis model (latent
    factor integrated out, hand-over estimates fixed) over the phase's own E/M iterations, driven
    through the real e_step_*/m_step_*/finalize_* methods"""
    import numpy as np

    gmm = B.mod("gmm")
    famod = B.mod("factor_analysis")
    rs = np.random.RandomState(seed)
    C, D, rU, rV = 2, 2, 2, 2
    CD = C * D
    ubm = gmm.GMMMachine(C)
    ubm.means = rs.normal(size=(C, D))
    ubm.variances = rs.uniform(0.5, 2.0, (C, D))
    ubm.weights = np.array([0.5, 0.5])
    m = famod.JFAMachine(r_U=rU, r_V=rV, ubm=ubm, em_iterations=1)
    labels = [0, 0, 1, 1, 1, 2, 2]
    X = []
    spk = rs.normal(scale=1.0, size=(3, C, D))
    for lab in labels:
        s = gmm.GMMStats(C, D)
        s.n = rs.uniform(1.0, 8.0, C)
        s.sum_px = s.n[:, None] * (ubm.means + spk[lab] + rs.normal(scale=0.5, size=(C, D)))
        s.t = float(s.n.sum())
        X.append(s)
    K = 3
    spc = [labels.count(k) for k in range(K)]
    n_acc, f_acc = m.initialize(X, labels, K)
    S, mean = ubm.variances.flatten(), ubm.means.flatten()

    def quad(W, N, r):  # -1/2 log|I + W'S^-1 N W| + 1/2 b' P^-1 b,  b = W' S^-1 r
        P = np.eye(W.shape[1]) + W.T @ (W * (N / S)[:, None])
        b = W.T @ (r / S)
        return -0.5 * np.linalg.slogdet(P)[1] + 0.5 * b @ np.linalg.solve(P, b)

    def ll_v():
        return sum(quad(m.V, np.repeat(n_acc[k], D), f_acc[k].flatten() - np.repeat(n_acc[k], D) * mean) for k in range(K))

    def ll_u(y):
        return sum(quad(m.U, np.repeat(X[h].n, D), X[h].sum_px.flatten() - np.repeat(X[h].n, D) * (mean + m.V @ y[labels[h]])) for h in range(len(X)))

    def ll_d(y, x):
        tot = 0.0
        for k in range(K):
            hs = [h for h in range(len(X)) if labels[h] == k]
            N = np.repeat(n_acc[k], D)
            r = f_acc[k].flatten() - N * (mean + m.V @ y[k])
            for j, h in enumerate(hs):
                r = r - np.repeat(X[h].n, D) * (m.U @ x[k][:, j])
            d2 = 1.0 + m.D**2 * N / S
            b = m.D / S * r
            tot += np.sum(-0.5 * np.log(d2) + 0.5 * b**2 / d2)
        return tot

    o = Outcome()
    lv = [ll_v()]
    for it in range(4):
        m.m_step_v([m.e_step_v(X, labels, spc, n_acc, f_acc)])
        lv.append(ll_v())
    y = m.finalize_v(X, labels, spc, n_acc, f_acc)
    lu = [ll_u(y)]
    for it in range(4):
        m.m_step_u([m.e_step_u(X, labels, spc, y)])
        lu.append(ll_u(y))
    x = m.finalize_u(X, labels, spc, y)
    ld = [ll_d(y, x)]
    for it in range(4):
        m.m_step_d([m.e_step_d(X, labels, spc, x, y, n_acc, f_acc)])
        ld.append(ll_d(y, x))
    o.info.update(V=lv, U=lu, D=ld)
    for nm, tr in (("V", lv), ("U", lu), ("D", ld)):
        for k in range(4):
            o.claim("%s-phase-marginal-likelihood-not-decreasing-%d" % (nm, k), tr[k + 1] >= tr[k] - 1e-8 * (1 + abs(tr[k])))
    o.claim("shapes", np.shape(m.U) == (CD, rU) and np.shape(m.V) == (CD, rV) and np.shape(m.D) == (CD,))
    o.claim("finite", bool(np.all(np.isfinite(m.U)) and np.all(np.isfinite(m.V)) and np.all(np.isfinite(m.D))))
    return o


def job_observable(P):
    P.probe_real("phase-observable", sc_phase_observable, [dict(seed=sd) for sd in (1, 2, 3, 4)], tries=1)


def job_phase(P, phase, C, D, rU, rV, lname):
    sc = dict(v=sc_phase_v, u=sc_phase_u, d=sc_phase_d)[phase]
    r = dict(v=rV, u=rU, d=max(rU, rV))[phase]
    for split in (False, True):
        P.run("phase-%s-%s" % (phase, "split" if split else "single"), sc, dict(C=C, D=D, rU=rU, rV=rV, labels=LAYOUTS[lname], split=split), linalg=_la(max(rU, rV)), validate=1 if not split else 0)
    K = len(set(LAYOUTS[lname]))
    for only in range(K):
        P.run("phase-%s-class%d-task" % (phase, only), sc, dict(C=C, D=D, rU=rU, rV=rV, labels=LAYOUTS[lname], split=False, only=only), linalg=_la(max(rU, rV)), validate=1)
    P.run("phase-%s-after-reassignment" % phase, sc, dict(C=C, D=D, rU=rU, rV=rV, labels=LAYOUTS[lname], split=False, history=True), linalg=_la(max(rU, rV)), validate=1)


def job_seq(P):
    for it in (1, 2, 3):
        P.run("sequencing-%d" % it, sc_sequencing, dict(iters=it), validate=1)


def jobs(tier):
    out = [("sequencing", "job_seq", {}), ("observable", "job_observable", {})]
    for (C, D, rU, rV) in SIZES[tier]:
        for lname in LAYOUTS:
            for ph in "vud":
                out.append(("phase-%s@C%dD%drU%drV%d-%s" % (ph, C, D, rU, rV, lname), "job_phase", dict(phase=ph, C=C, D=D, rU=rU, rV=rV, lname=lname)))
    return out
