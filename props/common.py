"""Shared scenario building blocks and independently written oracles.

Oracles use only Python arithmetic on scalars plus B.ln/B.ex/B.sqrt/B.maximum/B.lse, so the
same text runs on symbolic scalars (solver queries) and on floats (replay / validation)."""
import itertools
import math

import numpy as _np

LOG2PI_ARG = 2 * math.pi


def compositions(n):
    """all compositions of n (ordered tuples of positive ints summing to n)"""
    if n == 0:
        yield ()
        return
    for first in range(1, n + 1):
        for rest in compositions(n - first):
            yield (first,) + rest


def split_rows(X, comp):
    out, pos = [], 0
    for k in comp:
        out.append(X[pos : pos + k])
        pos += k
    return out


def floors(B, kind, C, D, name="thr"):
    if kind == "scalar":
        return B.real(name, pos=True)
    if kind == "vector":
        return B.arr(name, (D,), pos=True)
    if kind == "matrix":
        return B.arr(name, (C, D), pos=True)
    raise ValueError(kind)


def floor_at(thr, kind, c, d):
    if kind == "scalar":
        return thr
    if kind == "vector":
        return thr[d]
    return thr[c, d]


def make_gmm(B, C, D, floor="matrix", pre="", simplex=False, order="floors-first", **kw):
    """a GMM with symbolic weights>0, means, floors>0 and variances (clamped by the setter).
    returns (machine, P) with P the oracle's view of the parameters (nested lists)."""
    gmm = B.mod("gmm")
    m = gmm.GMMMachine(C, **kw)
    if simplex and C > 1:
        w0 = B.arr(pre + "w", (C - 1,), pos=True)
        last = 1 - total([w0[c] for c in range(C - 1)])
        B.assume(last > 0)
        w = B.np.array([w0[c] for c in range(C - 1)] + [last])
    elif simplex:
        w = B.np.array([1.0]) if not B.sym else B.np.ones((1,))
    else:
        w = B.arr(pre + "w", (C,), pos=True)
    mu = B.arr(pre + "mu", (C, D))
    thr = floors(B, floor, C, D, pre + "thr")
    v = B.arr(pre + "v", (C, D), pos=True)
    m.weights = B.copy(w)
    m.means = B.copy(mu)
    if order == "floors-first":
        m.variance_thresholds = B.copy(thr) if floor != "scalar" else thr
        m.variances = B.copy(v)
    else:
        # variances first (clamped by the default floor), the machine is used once, then the floors
        # are raised/lowered: the visible state must be the same as with floors-first, provided the
        # floors are at least the default (machine epsilon)
        m.variances = B.copy(v)
        if order == "floors-after-use":
            m.log_likelihood(B.np.zeros((1, D)))
        m.variance_thresholds = B.copy(thr) if floor != "scalar" else thr
        import numpy as _np2

        for t in _np2.asarray(thr, dtype=object).flat:
            B.assume(t >= 2.220446049250313e-16)
    P = dict(
        C=C,
        D=D,
        w=[w[c] for c in range(C)],
        mu=[[mu[c, d] for d in range(D)] for c in range(C)],
        v=[[B.maximum(floor_at(thr, floor, c, d), v[c, d]) for d in range(D)] for c in range(C)],
        thr=[[floor_at(thr, floor, c, d) for d in range(D)] for c in range(C)],
        raw=dict(w=w, mu=mu, thr=thr, v=v),
    )
    return m, P


def o_comp(B, P, x):
    """oracle: log( w_c N(x; mu_c, diag v_c) ) for every component; x is a length-D sequence"""
    C, D = P["C"], P["D"]
    out = []
    for c in range(C):
        q = 0
        lg = 0
        for d in range(D):
            dd = x[d] - P["mu"][c][d]
            q = q + dd * dd / P["v"][c][d]
            lg = lg + B.ln(P["v"][c][d])
        out.append(B.ln(P["w"][c]) - 0.5 * (D * B.ln(LOG2PI_ARG) + lg + q))
    return out


def o_ll(B, P, x):
    return B.lse(o_comp(B, P, x))


def o_resp(B, P, x):
    comp = o_comp(B, P, x)
    ll = B.lse(comp)
    return [B.ex(c - ll) for c in comp], ll


def o_stats(B, P, X):
    """oracle statistics of data X (N,D): dict t, n[c], px[c][d], pxx[c][d], ll"""
    C, D = P["C"], P["D"]
    N = len(X)
    n = [0] * C
    px = [[0] * D for _ in range(C)]
    pxx = [[0] * D for _ in range(C)]
    ll = 0
    for i in range(N):
        r, l = o_resp(B, P, X[i])
        ll = ll + l
        for c in range(C):
            n[c] = n[c] + r[c]
            for d in range(D):
                px[c][d] = px[c][d] + r[c] * X[i][d]
                pxx[c][d] = pxx[c][d] + r[c] * X[i][d] * X[i][d]
    return dict(t=N, n=n, px=px, pxx=pxx, ll=ll)


def sym_stats(B, C, D, name="s", data_like=True):
    """a GMMStats object with symbolic fields.  data_like: n>=0, t=sum n, n*S >= F^2 (moments of data)"""
    gmm = B.mod("gmm")
    s = gmm.GMMStats(C, D)
    n = B.arr(name + "n", (C,), nonneg=True)
    F = B.arr(name + "F", (C, D))
    S = B.arr(name + "S", (C, D), nonneg=True)
    s.n = B.copy(n)
    s.sum_px = B.copy(F)
    s.sum_pxx = B.copy(S)
    t = 0
    for c in range(C):
        t = t + n[c]
    s.t = t
    s.log_likelihood = B.real(name + "ll")
    if data_like:
        for c in range(C):
            for d in range(D):
                B.assume(n[c] * S[c, d] >= F[c, d] * F[c, d])
    return s, dict(n=n, F=F, S=S, t=t)


def lst(a):
    """nested python lists from an array"""
    a = _np.asarray(a, dtype=object) if not isinstance(a, _np.ndarray) else a
    if a.ndim == 0:
        return a[()]
    return [lst(a[i]) for i in range(a.shape[0])]


def total(xs):
    s = 0
    for x in xs:
        s = s + x
    return s
