"""C06 - K-means training descends the true distortion and stops by its stated rule."""
import z3

from symexec.core import SB, PathAbort, _z
from symexec.engine import AssumptionFailed, Outcome

from .c03 import LoopStub, expected_steps
from .common import compositions, total

FUNCTIONS = ["kmeans.get_centroids_distance", "kmeans.get_closest_centroid_index", "kmeans.e_step", "kmeans.m_step", "kmeans.KMeansMachine.fit",
             "kmeans.KMeansMachine.initialize", "utils.check_and_persist_dask_input", "utils.array_to_delayed_list"]
STUBS = ["scipy.spatial.distance.cdist(., ., 'sqeuclidean') = sum_d (a_d - b_d)^2", "dask_ml k_init: array init returned as is; string init = uninterpreted function of (data, n_clusters, init, seed, ...)",
         "loop obligations: kmeans.e_step/m_step replaced by stubs returning a symbolic criterion sequence", "Dask executor model"]
ASSUMPTIONS = ["every cluster keeps at least one sample (paths with an empty cluster are C13's)", "previous criterion != 0 in the relative-change test",
               "descent = (centroid is the mean) + (the mean minimises the within-cluster sum: proved per cluster) + (re-assignment to the nearest centroid cannot increase the sum: min <= member, proved) chained by transitivity"]
EXHAUSTIVE = ["all argmin paths (assignments, including ties -> first index)", "all row chunkings of the Dask input", "caps 0..K / None, thresholds symbolic / None"]
OUTSIDE = ["K,D,N beyond those listed", "rounding"]
SIZES = {"quick": [(1, 2, 3), (2, 1, 3), (2, 2, 3)], "thorough": [(2, 1, 3), (2, 2, 3), (2, 1, 4), (3, 1, 3), (2, 2, 4), (3, 2, 3)]}
LOOPK = {"quick": 4, "thorough": 6}


def bounds(tier):
    return dict(K_D_N=SIZES[tier], loop_iterations=LOOPK[tier])


def sqd(x, c, D):
    return total([(x[d] - c[d]) * (x[d] - c[d]) for d in range(D)])


def o_min(B, vals):
    r = vals[0]
    for v in vals[1:]:
        r = B.where(v < r, v, r)
    return r


def distortion(B, X, Cn, K, D, N):
    return total([o_min(B, [sqd(X[i], Cn[k], D) for k in range(K)]) for i in range(N)]) / N


def sc_step(B, K, D, N, chunks=None, via="fit"):
    km = B.mod("kmeans")
    X = B.arr("x", (N, D))
    C0 = B.arr("c", (K, D))
    o = Outcome()
    if via == "fit":
        m = km.KMeansMachine(K, init_method=B.copy(C0), max_iter=1)
        data = B.copy(X) if chunks is None else B.darr(B.copy(X), (chunks, (D,)))
        if chunks is not None:
            B.executor("fifo", False)
        m.fit(data)
        C1, crit = m.centroids_, m.average_min_distance
    else:
        st = km.e_step(B.copy(X), B.copy(C0))
        C1, crit = km.m_step([st], N)
    # assignment on this path, recomputed independently with the oracle's distances
    if B.sym:
        lab = km.get_closest_centroid_index(km.get_centroids_distance(X, C0))
        lab = [int(v) for v in lab]
    else:
        import numpy as np

        lab = [int(np.argmin([float(sqd(X[i], C0[k], D)) for k in range(K)])) for i in range(N)]
    members = [[i for i in range(N) if lab[i] == k] for k in range(K)]
    if any(len(mm) == 0 for mm in members):
        if B.sym:
            raise PathAbort("empty cluster: outside C06")
        raise AssumptionFailed()
    # labels really are nearest (so the independent assignment equals the path's)
    for i in range(N):
        for k in range(K):
            o.claim("label-nearest-%d-%d" % (i, k), sqd(X[i], C0[lab[i]], D) <= sqd(X[i], C0[k], D))
    want_c = [[total([X[i][d] for i in members[k]]) / len(members[k]) for d in range(D)] for k in range(K)]
    o.equal("centroid-is-mean", C1, want_c)
    o.equal("criterion-is-distortion", crit, distortion(B, X, C0, K, D, N))
    # descent, staged
    for k in range(K):
        a = total([sqd(X[i], C1[k], D) for i in members[k]])
        b = total([sqd(X[i], C0[k], D) for i in members[k]])
        o.claim("mean-minimises-cluster-%d" % k, a <= b if B.sym else float(a) <= float(b) + 1e-9)
    j1 = distortion(B, X, C1, K, D, N)
    assigned = total([sqd(X[i], C1[lab[i]], D) for i in range(N)]) / N
    if B.sym:
        # min <= member: proved on abstracted distances (fresh reals stand for the distance terms;
        # validity for all reals implies it for these particular terms)
        from symexec.core import fresh

        for i in range(N):
            p = [fresh("dist") for _ in range(K)]
            o.claim("reassignment-not-worse-%d" % i, o_min(B, p) <= p[lab[i]])
    else:
        o.claim("reassignment-not-worse", float(j1) <= float(assigned) + 1e-9)
    if K * D * N <= 6:
        j0 = distortion(B, X, C0, K, D, N)
        o.claim("descent-direct", j1 <= j0 if B.sym else float(j1) <= float(j0) + 1e-9)
    return o


def sc_loop(B, K, cap_kind, thr_kind, dask, isolated=False, policy="fifo"):
    km = B.mod("kmeans")
    seq = [B.real("a%d" % (k + 1), nonzero=True) for k in range(K)]
    cap = B.int("cap", 0, K, hint=None) if cap_kind == "sym" else None
    thr = B.real("thr", nonneg=True) if thr_kind == "sym" else None
    init = B.np.zeros((2, 1))
    m = km.KMeansMachine(2, init_method=init, max_iter=cap, convergence_threshold=thr)
    X = B.np.zeros((4, 1))
    if dask:
        X = B.darr(X, ((2, 2), (1,)))
        B.executor(policy, isolated)
    with LoopStub(B, "kmeans", seq, "kmeans", shape=(2, 1)) as st:
        try:
            ret = m.fit(X)
        except StopIteration:
            raise AssumptionFailed()
        calls = st.calls
    o = Outcome()
    exp = expected_steps(B, seq, cap, thr)
    tag = m.centroids_[0, 0]
    if B.sym:
        o.claim("iterations-match-rule", SB(exp == calls))
        o.equal("returned-model-is-last-iterate", m.centroids_, [[float(calls)]] * 2)
        if calls:
            o.equal("reported-criterion-is-last", m.average_min_distance, seq[calls - 1])
    else:
        steps = int(round(float(tag))) if (dask and isolated) else calls
        o.claim("iterations-match-rule", exp == steps)
        o.equal("returned-model-is-last-iterate", m.centroids_, [[float(exp)]] * 2)
        if exp:
            o.equal("reported-criterion-is-last", m.average_min_distance, seq[exp - 1])
    o.claim("fit-returns-self", ret is m)
    return o


def sc_int_init(B, dtype, dask):
    """real code only: explicit initial centroids given as an integer array (a natural way to
    write them down); the trained centroids are still the means of the assigned samples"""
    import numpy as np

    km = B.mod("kmeans")
    rs = np.random.RandomState(11)
    X = np.vstack([rs.normal((0.3, 0.4), 0.2, (15, 2)), rs.normal((3.6, 2.7), 0.2, (17, 2))])
    init = np.array([[0, 0], [4, 3]], dtype=dtype)
    m = km.KMeansMachine(2, init_method=init, max_iter=1)
    m.fit(X if not dask else B.darr(X, ((20, 12), (2,))))
    lab = np.argmin(((X[None] - init[:, None].astype(float)) ** 2).sum(-1), axis=0)
    o = Outcome()
    o.equal("centroid-is-mean", m.centroids_, [X[lab == k].mean(0) for k in range(2)])
    o.equal("criterion-is-distortion", m.average_min_distance, ((X - init.astype(float)[lab]) ** 2).sum(-1).mean())
    return o


def sc_descent_observable(B, dask, seed):
    """real code only: distortion after k and k+1 iterations of the real fit, reported criterion"""
    import numpy as np

    km = B.mod("kmeans")
    rs = np.random.RandomState(seed)
    X = np.vstack([rs.normal((0, 0), 1.0, (30, 2)), rs.normal((4, 1), 1.5, (30, 2)), rs.normal((1, 5), 0.7, (20, 2))])
    init = np.array([[0.5, 0.5], [1.0, 0.0], [0.0, 1.0]])

    def J(c):
        return float((((X[None] - c[:, None]) ** 2).sum(-1)).min(0).mean())

    o = Outcome()
    prev_c = init
    js = [J(init)]
    for k in range(1, 6):
        m = km.KMeansMachine(3, init_method=init.copy(), max_iter=k, convergence_threshold=None)
        m.fit(X if not dask else B.darr(X, ((25, 40, 15), (2,))))
        o.equal("criterion-is-distortion-of-entering-centroids-%d" % k, m.average_min_distance, J(prev_c))
        prev_c = np.array(m.centroids_)
        js.append(J(prev_c))
    for k in range(5):
        o.claim("distortion-not-increasing-%d" % k, js[k + 1] <= js[k] + 1e-10)
    return o


def job_int_init(P):
    P.probe_real("descent-observable", sc_descent_observable, [dict(dask=dk, seed=sd) for dk in (False, True) for sd in (1, 2, 3)], tries=1)
    P.probe_real("integer-init", sc_int_init, [dict(dtype=d, dask=k) for d in ("int64", "int32", "float32") for k in (False, True)], tries=1)


def job_step(P, K, D, N):
    P.run("step-fit", sc_step, dict(K=K, D=D, N=N, via="fit"), validate=2)
    P.run("step-fns", sc_step, dict(K=K, D=D, N=N, via="fns"), validate=0)


def job_step_dask(P, K, D, N, chunks):
    P.run("step-dask", sc_step, dict(K=K, D=D, N=N, chunks=chunks, via="fit"), validate=1)


def job_loop(P, K, cap_kind, thr_kind, dask, isolated, policy):
    P.run("loop", sc_loop, dict(K=K, cap_kind=cap_kind, thr_kind=thr_kind, dask=dask, isolated=isolated, policy=policy), validate=2)


def jobs(tier):
    out = [("int-init", "job_int_init", {})]
    for (K, D, N) in SIZES[tier]:
        out.append(("step@K%dD%dN%d" % (K, D, N), "job_step", dict(K=K, D=D, N=N)))
    for (K, D, N) in [s_ for s_ in SIZES[tier] if s_[0] >= 2][:2]:
        for comp in compositions(N):
            if len(comp) > 1:
                out.append(("dask@K%dD%dN%d-%s" % (K, D, N, "+".join(map(str, comp))), "job_step_dask", dict(K=K, D=D, N=N, chunks=comp)))
    Kl = LOOPK[tier]
    for cap_kind, thr_kind in (("sym", "sym"), ("sym", "none"), ("none", "sym")):
        out.append(("loop-numpy-%s-%s" % (cap_kind, thr_kind), "job_loop", dict(K=Kl, cap_kind=cap_kind, thr_kind=thr_kind, dask=False, isolated=False, policy="fifo")))
        for iso in (False, True):
            out.append(("loop-dask-%s-%s-%s" % (cap_kind, thr_kind, "iso" if iso else "shared"), "job_loop", dict(K=Kl, cap_kind=cap_kind, thr_kind=thr_kind, dask=True, isolated=iso, policy="lifo" if iso else "fifo")))
    return out
