"""C03 - GMM ML training never decreases the likelihood and stops by its stated rule."""
import itertools

import z3

from symexec import axioms as AX
from symexec.core import SB, SInt, SV, PathAbort, _z
from symexec.engine import Outcome

from .common import make_gmm, o_ll, sym_stats, total

FUNCTIONS = ["gmm.ml_gmm_m_step", "gmm.m_step (wrapper)", "gmm.GMMMachine.fit (loop, stopping rule, NumPy and Dask branch)", "gmm.e_step",
             "utils.check_and_persist_dask_input", "utils.array_to_delayed_list"]
STUBS = ["loop obligations: gmm.e_step / gmm.m_step replaced by stubs returning an arbitrary symbolic criterion sequence a_1..a_K (a_k != 0) and tagging the machine with the iteration number",
         "Dask executor model (fifo/lifo order, shared and isolated workers)"]
ASSUMPTIONS = ["M-step: counts n_c > count floor, strict n*S > F^2 (non-degenerate moments), old variances >= floors > 0, new variances above the floors (no floor active), old weights on the simplex",
               "EM monotonicity = exact E-step (C02) + M-step does not decrease the expected complete-data log-likelihood Q (proved here per block) + Jensen's inequality (trusted)",
               "loop: previous criterion != 0 in the relative-change test; no-limit + no-convergence (non-termination) is bounded away by K",
               "instances of ln t <= t - 1 and ln(a/b) = ln a - ln b supplied for t = v_new/v_old, w_old/w_new"]
EXHAUSTIVE = ["8 combinations of the update switches", "iteration caps 0..K and None, threshold symbolic >= 0 and None", "NumPy and Dask branch of fit; shared and isolated executor"]
OUTSIDE = ["C,D beyond those listed; criterion sequences longer than K", "active variance/count floors", "rounding"]
SIZES = {"quick": [(1, 1), (2, 1)], "thorough": [(1, 1), (2, 1), (2, 2), (3, 1)]}
LOOPK = {"quick": 4, "thorough": 6}


def bounds(tier):
    return dict(C_D=SIZES[tier], loop_iterations=LOOPK[tier], switches="all 8")


# ---------------------------------------------------------------------------------- (a) M-step keeps Q
def sc_mstep(B, C, D, um, uv, uw):
    gmm = B.mod("gmm")
    m, MP = make_gmm(B, C, D, "scalar", simplex=True, update_means=um, update_variances=uv, update_weights=uw)
    s, SP = sym_stats(B, C, D, "s", data_like=False)
    n, F, S, t = SP["n"], SP["F"], SP["S"], SP["t"]
    thr = float(m.mean_var_update_threshold)
    for c in range(C):
        B.assume(n[c] > thr)
        for d in range(D):
            B.assume(n[c] * S[c, d] > F[c, d] * F[c, d])
    w0, mu0, v0 = MP["w"], MP["mu"], MP["v"]
    ret, avg = gmm.m_step([s], m)
    o = Outcome()
    o.equal("average-is-ll-over-t", avg, s.log_likelihood / t)
    w1 = [m.weights[c] for c in range(C)]
    mu1 = [[m.means[c, d] for d in range(D)] for c in range(C)]
    v1 = [[m.variances[c, d] for d in range(D)] for c in range(C)]
    if not um:
        o.equal("means-kept", m.means, mu0)
    if not uv:
        o.equal("variances-kept", m.variances, v0)
    if not uw:
        o.equal("weights-kept", m.weights, w0)
    # Q per Gaussian block (c,d): -1/2 [ n ln v + (S - 2 mu F + n mu^2)/v ]
    for c in range(C):
        for d in range(D):
            B.assume(v1[c][d] > MP["thr"][c][d])  # the floor is not active on the new variance

            def A(mu):
                return S[c, d] - 2 * mu * F[c, d] + n[c] * mu * mu

            q_new = n[c] * B.ln(v1[c][d]) + A(mu1[c][d]) / v1[c][d]
            q_old = n[c] * B.ln(v0[c][d]) + A(mu0[c][d]) / v0[c][d]
            if B.sym:
                o.claim("Q-gauss-%d%d" % (c, d), q_new <= q_old)
                tt = _z(v1[c][d]) / _z(v0[c][d])
                o.extra_axioms += [AX.ln_tangent(tt), AX.ln_quot(_z(v1[c][d]), _z(v0[c][d]))]
            else:
                o.claim("Q-gauss-%d%d" % (c, d), float(q_new) <= float(q_old) + 1e-9 * (1 + abs(float(q_old))))
    # weights block: sum_c n_c ln w_c
    qw_new = total([n[c] * B.ln(w1[c]) for c in range(C)])
    qw_old = total([n[c] * B.ln(w0[c]) for c in range(C)])
    if B.sym:
        o.claim("Q-weights", qw_new >= qw_old)
        for c in range(C):
            tt = _z(w0[c]) / _z(w1[c])
            o.extra_axioms += [AX.ln_tangent(tt), AX.ln_quot(_z(w0[c]), _z(w1[c]))]
    else:
        o.claim("Q-weights", float(qw_new) >= float(qw_old) - 1e-9 * (1 + abs(float(qw_old))))
    if uw:
        o.equal("weights-sum-to-one", total(w1), 1)
    return o


# ---------------------------------------------------------------------------------- (b) reported average
def sc_average(B, C, D, N, split):
    gmm = B.mod("gmm")
    m, MP = make_gmm(B, C, D, "scalar", simplex=True)
    X = B.arr("x", (N, D))
    want = total([o_ll(B, MP, X[i]) for i in range(N)]) / N
    if split == "each":
        stats = [gmm.e_step(X[i : i + 1], m) for i in range(N)]
    else:
        stats = [gmm.e_step(X[:split], m), gmm.e_step(X[split:], m)] if split else [gmm.e_step(X, m)]
    ret, avg = gmm.m_step(stats, m)
    o = Outcome()
    o.equal("average-is-mean-loglik-before-update", avg, want)
    return o


def sc_reduce(B, C, D, k):
    """the M-step wrapper reduces a list of k statistics: each enters exactly once"""
    gmm = B.mod("gmm")
    m, MP = make_gmm(B, C, D, "scalar", simplex=True, update_means=True, update_variances=False, update_weights=True)
    stats, n, F, t, ll = [], [0] * C, [[0] * D for _ in range(C)], 0, 0
    for j in range(k):
        s, SP = sym_stats(B, C, D, "s%d" % j, data_like=False)
        stats.append(s)
        for c in range(C):
            B.assume(SP["n"][c] > 1e-3)
            n[c] = n[c] + SP["n"][c]
            for d in range(D):
                F[c][d] = F[c][d] + SP["F"][c, d]
        t = t + SP["t"]
        ll = ll + s.log_likelihood
    ret, avg = gmm.m_step(stats, m)
    o = Outcome()
    o.equal("average", avg, ll / t)
    o.equal("means", m.means, [[F[c][d] / n[c] for d in range(D)] for c in range(C)])
    o.equal("weights", m.weights, [n[c] / t for c in range(C)])
    return o


# ---------------------------------------------------------------------------------- (c) the loop
class LoopStub:
    """replaces e_step/m_step of a module by stubs driven by a criterion sequence.
    The iteration number travels *inside the model* (tag = parameter value), so the stubs also work
    when tasks run on serialised copies; `calls` is an additional parent-side counter that is only
    meaningful without serialisation."""

    def __init__(self, B, modname, seq, kind, shape=None):
        self.B, self.seq, self.kind, self.shape = B, seq, kind, shape
        self.mod = B.mod(modname)
        self.calls = 0
        self.saved = (self.mod.e_step, self.mod.m_step)

    def __enter__(self):
        stub = self
        seq = list(self.seq)
        sym = self.B.sym
        full = self.B.np.full
        shape = self.shape

        def nxt(tag):
            k = int(round(float(tag))) + 1
            if k > len(seq):
                if sym:
                    raise PathAbort("criterion sequence exhausted (bounded)")
                raise StopIteration()
            return k

        if self.kind == "gmm":

            def e_step(*a, **k):
                return ("stats",)

            def m_step(statistics, machine):
                stub.calls += 1
                k = nxt(machine.means[0, 0])
                machine.means = full(machine.means.shape, float(k))
                return machine, seq[k - 1]

        else:

            def e_step(data, means):
                return ("stats", means[0, 0])

            def m_step(stats, n_samples):
                stub.calls += 1
                k = nxt(stats[0][1])
                return full(shape, float(k)), seq[k - 1]

        self.mod.e_step, self.mod.m_step = e_step, m_step
        return self

    def __exit__(self, *a):
        self.mod.e_step, self.mod.m_step = self.saved
        return False


def expected_steps(B, seq, cap, thr):
    """oracle: min(cap, first k>=2 with |a_{k-1}-a_k|/|a_{k-1}| <= thr); symbolic (z3 Int term) or int"""
    K = len(seq)
    if not B.sym:
        k = 0
        while cap is None or k < cap:
            k += 1
            if k > K:
                return None
            if k > 1 and thr is not None and abs((seq[k - 2] - seq[k - 1]) / seq[k - 2]) <= thr:
                break
        return k
    capz = None if cap is None else (cap.z if isinstance(cap, SInt) else z3.IntVal(int(cap)))

    def conv(k):  # 1-based k >= 2
        if thr is None:
            return z3.BoolVal(False)
        q = (_z(seq[k - 2]) - _z(seq[k - 1])) / _z(seq[k - 2])
        return z3.If(q >= 0, q, -q) <= _z(thr)

    # steps(k) = number of iterations executed given we are about to test the loop condition with step = k
    def go(k):
        if k >= K + 1:
            return z3.IntVal(-1)  # would need more than K values: outside the bound
        enter = z3.BoolVal(True) if capz is None else z3.IntVal(k) < capz
        nxt = k + 1
        if nxt > K:
            return z3.If(enter, z3.IntVal(-1), z3.IntVal(k))
        after = z3.If(conv(nxt), z3.IntVal(nxt), go(nxt)) if nxt >= 2 else go(nxt)
        return z3.If(enter, after, z3.IntVal(k))

    return go(0)


def sc_loop(B, K, cap_kind, thr_kind, dask, isolated=False, policy="fifo"):
    gmm = B.mod("gmm")
    seq = [B.real("a%d" % (k + 1), nonzero=True) for k in range(K)]
    cap = B.int("cap", 0, K, hint=None) if cap_kind == "sym" else None
    thr = B.real("thr", nonneg=True) if thr_kind == "sym" else None
    m = gmm.GMMMachine(2, max_fitting_steps=cap, convergence_threshold=thr)
    m.means = B.np.zeros((2, 1))
    m.variances = B.np.ones((2, 1))
    X = B.np.zeros((4, 1)) if not B.sym else B.np.zeros((4, 1))
    if dask:
        X = B.darr(X, ((2, 2), (1,)))
        B.executor(policy, isolated)
    with LoopStub(B, "gmm", seq, "gmm") as st:
        try:
            ret = m.fit(X)
        except StopIteration:
            from symexec.engine import AssumptionFailed

            raise AssumptionFailed()
        calls = st.calls
    o = Outcome()
    exp = expected_steps(B, seq, cap, thr)
    tag = m.means[0, 0]  # iteration number carried by the returned model
    if B.sym:
        steps = calls
        o.claim("iterations-match-rule", SB(exp == steps))
        o.equal("returned-model-is-last-iterate", m.means, [[float(steps)]] * 2)
    else:
        steps = int(round(float(tag))) if (dask and isolated) else calls
        o.claim("iterations-match-rule", exp == steps)
        o.claim("returned-model-is-last-iterate", float(tag) == float(steps) and exp == int(round(float(tag))))
        o.info["expected"], o.info["executed"], o.info["tag"] = exp, calls, float(tag)
        o.equal("returned-model-is-last-iterate", m.means, [[float(exp)]] * 2)
    o.claim("fit-returns-self", ret is m)
    return o


def sc_em_observable(B, um, uv, uw, dask, seed):
    """real code only: the property's own observable - the average training log-likelihood after
    k and k+1 EM iterations of the real fit (same start), for k = 0..4"""
    import numpy as np

    gmm = B.mod("gmm")
    rs = np.random.RandomState(seed)
    X = np.vstack([rs.normal((-1.0, 0.5), (0.7, 1.2), (40, 2)), rs.normal((2.0, -1.0), (1.1, 0.5), (35, 2)), rs.normal((0.5, 3.0), 0.8, (25, 2))])
    rs.shuffle(X)

    def trained(k):
        m = gmm.GMMMachine(3, update_means=um, update_variances=uv, update_weights=uw, max_fitting_steps=k, convergence_threshold=None)
        m.weights = np.array([0.2, 0.5, 0.3])
        m.means = np.array([[-2.0, 0.0], [1.0, 0.0], [0.0, 2.0]])
        m.variances = np.array([[2.0, 2.0], [1.5, 1.0], [1.0, 3.0]])
        m.fit(X if not dask else B.darr(X, ((33, 30, 37), (2,))))
        return m

    lls = [float(np.mean(trained(k).log_likelihood(X))) for k in range(6)]
    o = Outcome()
    o.info["average_log_likelihoods"] = lls
    for k in range(5):
        o.claim("likelihood-not-decreasing-%d" % k, lls[k + 1] >= lls[k] - 1e-10)
    return o


def sc_long_loop(B, which, stop_at, dask):
    """real code only, stubbed steps: with no iteration limit training runs until the stated rule
    fires, however late (criterion sequence c/k: relative change 1/k)"""
    mod = B.mod("gmm" if which == "gmm" else "kmeans")
    seq = [1000.0 / k for k in range(1, stop_at + 40)]
    thr = 1.0 / (stop_at - 0.5)
    if which == "gmm":
        m = mod.GMMMachine(2, max_fitting_steps=None, convergence_threshold=thr)
        m.means = B.np.zeros((2, 1))
        m.variances = B.np.ones((2, 1))
    else:
        m = mod.KMeansMachine(2, init_method=B.np.zeros((2, 1)), max_iter=None, convergence_threshold=thr)
    X = B.np.zeros((4, 1))
    if dask:
        X = B.darr(X, ((2, 2), (1,)))
        B.executor("fifo", False)
    with LoopStub(B, which, seq, which, shape=(2, 1)) as st:
        m.fit(X)
        calls = st.calls
    o = Outcome()
    o.equal("iterations", calls, stop_at)
    o.equal("returned-model-tag", (m.means if which == "gmm" else m.centroids_)[0][0], float(stop_at))
    return o


def job_long(P):
    from symexec import loader

    stops = sorted({c + 7 for c in loader.int_constants(min_value=20, max_value=2000)} | {37})
    P.probe_real("long-loops", sc_long_loop, [dict(which=w, stop_at=sa, dask=dk) for w in ("gmm", "kmeans") for sa in stops for dk in (False, True)], tries=1)


def job_observable(P):
    plist = [dict(um=um, uv=uv, uw=uw, dask=dk, seed=sd) for um, uv, uw in itertools.product((False, True), repeat=3) for dk in (False, True) for sd in (1, 2)]
    P.probe_real("em-observable", sc_em_observable, plist, tries=1)


def job_mstep(P, C, D):
    for um, uv, uw in itertools.product((False, True), repeat=3):
        P.run("mstep-m%dv%dw%d" % (um, uv, uw), sc_mstep, dict(C=C, D=D, um=um, uv=uv, uw=uw), validate=1)


def job_average(P, C, D, N):
    for split in (0, 1, "each"):
        P.run("average-split%s" % split, sc_average, dict(C=C, D=D, N=N, split=split), validate=1)


def job_reduce(P, C, D):
    for k in (1, 2, 3, 5, 6):
        P.run("reduce-%d" % k, sc_reduce, dict(C=C, D=D, k=k), validate=1)


def job_loop(P, K, cap_kind, thr_kind, dask, isolated, policy):
    P.run("loop", sc_loop, dict(K=K, cap_kind=cap_kind, thr_kind=thr_kind, dask=dask, isolated=isolated, policy=policy), validate=2)


def jobs(tier):
    out = [("observable", "job_observable", {}), ("long-loops", "job_long", {})]
    for (C, D) in SIZES[tier]:
        out.append(("mstep@C%dD%d" % (C, D), "job_mstep", dict(C=C, D=D)))
    out.append(("average@C2D2N3", "job_average", dict(C=2, D=2, N=3)))
    out.append(("reduce@C2D1", "job_reduce", dict(C=2, D=1)))
    K = LOOPK[tier]
    for cap_kind, thr_kind in (("sym", "sym"), ("sym", "none"), ("none", "sym")):
        out.append(("loop-numpy-%s-%s" % (cap_kind, thr_kind), "job_loop", dict(K=K, cap_kind=cap_kind, thr_kind=thr_kind, dask=False, isolated=False, policy="fifo")))
        for iso in (False, True):
            for pol in ("fifo", "lifo"):
                out.append(("loop-dask-%s-%s-%s-%s" % (cap_kind, thr_kind, "iso" if iso else "shared", pol), "job_loop", dict(K=K, cap_kind=cap_kind, thr_kind=thr_kind, dask=True, isolated=iso, policy=pol)))
    return out
