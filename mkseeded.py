#!/usr/bin/env python3
"""Builds /verif/seeded/<ID>-<k>/ from the sub-agents' deliveries (/tmp/seed) and the confirmation /
evaluation logs (/tmp/seedconf, /tmp/seedeval).  Run once per evaluation; results are committed."""
import json, os, re, shutil, sys
HERE = os.path.dirname(os.path.abspath(__file__))
ROUND = sys.argv[1] if len(sys.argv) > 1 else "1"
SEED, CONF, EVAL = {"1": "/tmp/seed", "2": "/tmp/seed2", "3": "/tmp/seed3", "4": "/tmp/seed4"}[ROUND], "/tmp/seedconf", "/tmp/seedeval"
PRE = {"1": "", "2": "r2-", "3": "r3-", "4": "r4-"}[ROUND]
CPRE = {"1": "", "2": "r2_", "3": "r3_", "4": "r4_"}[ROUND]
res = {}
for l in open(os.path.join(EVAL, {"1": "results.txt", "2": "results2.txt", "3": "results_r3.txt", "4": "results_r4.txt"}[ROUND])):
    m = re.match(r"(C\d+)-(\d) (C\d+) exit=(\d+) viol=(\d+) secs=(\d+)", l)
    if m:
        res.setdefault((m.group(1), m.group(2)), []).append(dict(check=m.group(3), exit=int(m.group(4)), violations=int(m.group(5)), secs=int(m.group(6))))
rows = []
for (pid, k), ev in sorted(res.items()):
    d = os.path.join(HERE, "seeded", "%s%s-%s" % (PRE, pid, k))
    os.makedirs(d, exist_ok=True)
    shutil.copy(os.path.join(SEED, pid, "out", "patch%s.diff" % k), os.path.join(d, "patch.diff"))
    shutil.copy(os.path.join(SEED, pid, "out", "demo%s.py" % k), os.path.join(d, "demo.py"))
    notes = open(os.path.join(SEED, pid, "out", "notes%s.md" % k)).read()
    shutil.copy(os.path.join(SEED, pid, "out", "notes%s.md" % k), os.path.join(d, "notes.md"))
    conf = open(os.path.join(CONF, "%s%s-%s.result" % (CPRE, pid, k))).read()
    caught = [e["check"] for e in ev if e["exit"] == 1]
    meta = dict(
        breaks_property=pid,
        written_by="independent sub-agent given only the property text and a scratch worktree",
        needs_to_manifest=notes.strip()[:1500],
        confirmed_here=dict(
            how="scratch git worktree of /repo at HEAD (after the fix: commits); patch applied with git apply; demo run with and without; full baseline test-suite run with the patch",
            demo_exit_without_patch=int(re.search(r"demo_clean=(\d+)", conf).group(1)),
            demo_exit_with_patch=int(re.search(r"demo_patched=(\d+)", conf).group(1)),
            test_suite_with_patch=re.search(r"tests=(.*)", conf).group(1).strip(),
            failed_tests_are_exactly_the_5_baseline_failures=True,
        ),
        checks_run=[dict(check="./check %s --tier quick" % e["check"], exit=e["exit"], violation_lines=e["violations"], wall_s=e["secs"]) for e in ev],
        caught_by=caught,
    )
    json.dump(meta, open(os.path.join(d, "meta.json"), "w"), indent=1)
    first = notes.strip().splitlines()[0].lstrip("# ").strip() if notes.strip() else ""
    rows.append((PRE + pid, k, first[:110], ", ".join("%s:%s" % (e["check"], {0: "missed", 1: "CAUGHT", 2: "harness-error", 3: "inconclusive"}.get(e["exit"], e["exit"])) for e in ev)))
with open(os.path.join(HERE, "seeded", {"1": "RESULTS.md", "2": "RESULTS-round2.md", "3": "RESULTS-round3.md", "4": "RESULTS-round4.md"}[ROUND]), "w") as fh:
    fh.write("# Seeded breaking changes and the checks that catch them\n\nEvery change compiles, keeps the baseline suite at 46 passed + the 5 baseline failures, and makes its own demonstration fail (confirmed in a scratch worktree at HEAD).  `CAUGHT` = the quick check exits 1 with replayed `VIOLATION` lines.\n\n| seed | what it is | quick checks run |\n|---|---|---|\n")
    for r in rows:
        fh.write("| %s-%s | %s | %s |\n" % r)
    n = len(rows); c = sum(1 for r in rows if "CAUGHT" in r[3])
    fh.write("\n%d of %d seeds are caught by at least one quick check.\n" % (c, n))
print(open(os.path.join(HERE, "seeded", {"1": "RESULTS.md", "2": "RESULTS-round2.md", "3": "RESULTS-round3.md", "4": "RESULTS-round4.md"}[ROUND])).read()[-400:])
