#!/bin/sh
# usage: run.sh ID K  -> /tmp/seedconf/ID-K.result
ID=$1; K=$2; W=/tmp/seedconf/wt_${TAG}$ID-$K; R=/tmp/seedconf/${TAG}$ID-$K.result
SR=${SEEDROOT:-/tmp/seed}; P=$SR/$ID/out/patch$K.diff; D=$SR/$ID/out/demo$K.py
git -C /repo worktree add --detach $W HEAD -q 2>/dev/null || { echo "worktree failed" > $R; exit 1; }
cd $W
( cd /tmp && PYTHONPATH=$W/src timeout 600 /venv/bin/python $D >/dev/null 2>&1; echo "demo_clean=$?" ) > $R
git apply $P || { echo "apply_failed" >> $R; git -C /repo worktree remove --force $W; exit 1; }
( cd /tmp && PYTHONPATH=$W/src timeout 600 /venv/bin/python $D >/dev/null 2>&1; echo "demo_patched=$?" ) >> $R
PYTHONPATH=$W/src timeout 1500 /venv/bin/python -m pytest -q -p no:cacheprovider --timeout=900 tests > $R.log 2>&1
echo "tests=$(grep -E '^[0-9]+ (passed|failed)|passed' $R.log | tail -1)" >> $R
echo "failed_tests=$(grep '^FAILED' $R.log | sed 's/ - .*//' | sort | tr '\n' ' ')" >> $R
cd /; git -C /repo worktree remove --force $W
