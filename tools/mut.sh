#!/bin/sh
# usage: mut.sh PROP 'sed-expr' file
cd /repo && sed -i "$2" "src/bob/learn/em/$3" && git diff --stat | tail -1; cd /verif && VERIF_EVIDENCE_DIR=/tmp/ev_mut ./check $1 2>&1 | grep -v "^  " | cut -c1-220 | tail -${4:-6}; echo "exit=$?"; cd /repo && git checkout -- . 
