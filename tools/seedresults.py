#!/usr/bin/env python3
"""usage: seedresults.py PREFIX OUT.md  - table of seeded/<PREFIX>* from their meta.json"""
import glob, json, os, sys
HERE = os.path.dirname(os.path.dirname(os.path.abspath(__file__)))
pre, out = sys.argv[1:3]
rows, first = [], []
for d in sorted(glob.glob(os.path.join(HERE, "seeded", pre + "*"))):
    m = json.load(open(os.path.join(d, "meta.json")))
    what = " ".join(m["needs_to_manifest"].split())[:160]
    rows.append("| %s | %s | %s |" % (os.path.basename(d), what, ", ".join("%s:%s" % (e["check"].split()[1], {0: "missed", 1: "CAUGHT", 2: "harness-error", 3: "inconclusive"}.get(e["exit"], e["exit"])) for e in m["checks_run"])))
    if "first_pass" in m:
        f = m["first_pass"]
        first.append("| %s | %s: exit %s | %s | %s |" % (os.path.basename(d), f["check"], f["exit"], f["what_was_missing"], f["added"]))
with open(os.path.join(HERE, "seeded", out), "w") as fh:
    fh.write("# Seeded breaking changes (%s*) and the checks that catch them\n\nEvery change compiles, keeps the baseline suite at 46 passed + the 5 baseline failures, and makes its own demonstration fail (confirmed in a scratch worktree at HEAD).  `CAUGHT` = the quick check exits 1 with replayed `VIOLATION` lines.\n\n| seed | what it is / needs | quick checks run |\n|---|---|---|\n" % pre)
    fh.write("\n".join(rows) + "\n\n%d of %d seeds are caught by at least one quick check.\n" % (sum("CAUGHT" in r for r in rows), len(rows)))
    if first:
        fh.write("\n## First pass (before the harnesses were strengthened)\n\n| seed | first pass | what was missing | what was added |\n|---|---|---|---|\n" + "\n".join(first) + "\n")
print(open(os.path.join(HERE, "seeded", out)).read())
