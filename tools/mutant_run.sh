#!/bin/sh
# usage: run1.sh MUTANT_ID
I=$1; W=/tmp/mutc/wt_$I; E=/tmp/mutc/ev_$I; mkdir -p $E
git -C /repo worktree add --detach $W HEAD -q || exit 1
python3 - "$I" "$W" <<'PY'
import json,sys
i=int(sys.argv[1]); w=sys.argv[2]
m=[x for x in json.load(open('/tmp/mutc/mutants.json')) if x['id']==i][0]
p=f"{w}/src/bob/learn/em/{m['file']}"
L=open(p).read().split("\n"); assert L[m['line']-1]==m['old'], (L[m['line']-1], m['old']); L[m['line']-1]=m['new']; open(p,'w').write("\n".join(L))
print(" ".join(m['checks']))
PY
CH=$(python3 -c "import json;print(' '.join([x for x in json.load(open('/tmp/mutc/mutants.json')) if x['id']==$I][0]['checks']))")
if ! PYTHONPATH=$W/src /venv/bin/python -c "import bob.learn.em" 2>/dev/null; then echo "$I importerror" ; git -C /repo worktree remove --force $W; exit 0; fi
RES="survived"
for PR in $CH; do
  ( cd /verif && VERIF_JOBS=5 VERIF_EVIDENCE_DIR=$E BOB_LEARN_EM_SRC=$W/src/bob/learn/em PYTHONPATH=$W/src timeout 900 ./check $PR > $E/$PR.out 2>&1 ); rc=$?
  if [ $rc -eq 1 ]; then RES="killed-by-$PR"; break; fi
  if [ $rc -ne 0 ]; then RES="$RES,$PR-exit$rc"; fi
done
echo "$I $RES"
git -C /repo worktree remove --force $W; rm -rf $E/replays
