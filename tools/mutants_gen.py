import ast, os, random, re, sys, json
SRC="/repo/src/bob/learn/em"
CHECKS={"gmm.py":["C03","C05","C01","C02","C17","C18","C13"],"kmeans.py":["C06","C20","C04","C13"],"linear_scoring.py":["C08"],"ivector.py":["C10","C12","C13"],"wccn.py":["C14"],"whitening.py":["C14"],"factor_analysis.py":["C07","C09","C11","C12","C04"],"utils.py":["C04","C03"]}
random.seed(7)
muts=[]
def code_lines(path):
    src=open(path).read(); tree=ast.parse(src)
    doc=set()
    for node in ast.walk(tree):
        if isinstance(node,(ast.FunctionDef,ast.ClassDef,ast.Module)) and node.body and isinstance(node.body[0],ast.Expr) and isinstance(getattr(node.body[0],'value',None),ast.Constant) and isinstance(node.body[0].value.value,str):
            d=node.body[0]; doc.update(range(d.lineno,d.end_lineno+1))
    out=[]
    for i,l in enumerate(src.splitlines(),1):
        s=l.strip()
        if i in doc or not s or s.startswith("#") or "logger." in l or s.startswith(("import","from","raise","def ","class ","@","return self","\"","f\"")): continue
        out.append((i,l))
    return out
RULES=[(r" \+ "," - "),(r" - "," + "),(r" \* "," / "),(r" / "," * "),(r" <= "," < "),(r" < "," <= "),(r" >= "," > "),(r" > "," >= "),(r" == "," != "),(r"axis=0","axis=-1"),(r"axis=-1","axis=0"),(r"\[:, None\]","[None, :]"),(r"\*\* ?2","** 1"),(r" \+= "," -= "),(r" -= "," += "),(r"\b0\.5\b","0.25"),(r"range\(1, ","range(0, "),(r"\bn_classes\b - 1","n_classes"),(r"is not None","is None"),(r" and "," or ")]
for fn in CHECKS:
    for (i,l) in code_lines(os.path.join(SRC,fn)):
        for pat,rep in RULES:
            for m in re.finditer(pat,l):
                nl=l[:m.start()]+rep+l[m.end():]
                muts.append(dict(file=fn,line=i,old=l,new=nl,rule=pat))
random.shuffle(muts)
# stratify: up to N per file
quota={"gmm.py":45,"kmeans.py":25,"linear_scoring.py":10,"ivector.py":20,"wccn.py":8,"whitening.py":6,"factor_analysis.py":45,"utils.py":3}
sel=[]; cnt={}
seen=set()
for m in muts:
    k=(m["file"],m["line"])
    if cnt.get(m["file"],0)>=quota[m["file"]] or k in seen: continue
    seen.add(k); cnt[m["file"]]=cnt.get(m["file"],0)+1; m["checks"]=CHECKS[m["file"]]; m["id"]=len(sel); sel.append(m)
json.dump(sel,open("/tmp/mutc/mutants.json","w"),indent=1)
print(len(muts),"candidates;",len(sel),"selected",cnt)
