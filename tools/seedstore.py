#!/usr/bin/env python3
"""usage: seedstore.py PREFIX ID K SEEDROOT  - stores one confirmed sub-agent delivery as
seeded/<PREFIX><ID>-<K>/ from SEEDROOT/ID/out/{patchK.diff,demoK.py,noteK.txt}, the confirmation
(/tmp/seedconf/<TAG>ID-K.result) and evaluation logs (/tmp/seedeval/ev_<TAG>ID-K/*.out)."""
import glob, json, os, re, shutil, sys
HERE = os.path.dirname(os.path.dirname(os.path.abspath(__file__)))
pre, pid, k, root = sys.argv[1:5]
tag = os.environ.get("TAG", "")
d = os.path.join(HERE, "seeded", "%s%s-%s" % (pre, pid, k))
os.makedirs(d, exist_ok=True)
out = os.path.join(root, pid, "out")
shutil.copy(os.path.join(out, "patch%s.diff" % k), os.path.join(d, "patch.diff"))
shutil.copy(os.path.join(out, "demo%s.py" % k), os.path.join(d, "demo.py"))
note = open(os.path.join(out, "note%s.txt" % k)).read()
conf = open("/tmp/seedconf/%s%s-%s.result" % (tag, pid, k)).read()
ev = []
for f in sorted(glob.glob("/tmp/seedeval/ev_%s%s-%s/C*.out" % (tag, pid, k))):
    txt = open(f).read()
    m = re.search(r"^EXIT=(\d+) SECS=(\d+)", txt, re.M)
    ev.append(dict(check="./check %s --tier quick" % os.path.basename(f)[:-4], exit=int(m.group(1)) if m else None,
                   violation_lines=len(re.findall(r"^VIOLATION", txt, re.M)), wall_s=int(m.group(2)) if m else None))
meta = dict(
    breaks_property=pid,
    written_by="independent sub-agent given only the property text and a scratch worktree",
    needs_to_manifest=note.strip()[:1500],
    confirmed_here=dict(
        how="scratch git worktree of /repo at HEAD; patch applied with git apply; demo run with and without; full baseline test-suite run with the patch",
        demo_exit_without_patch=int(re.search(r"demo_clean=(\d+)", conf).group(1)),
        demo_exit_with_patch=int(re.search(r"demo_patched=(\d+)", conf).group(1)),
        test_suite_with_patch=re.search(r"tests=(.*)", conf).group(1).strip(),
        failed_tests=re.search(r"failed_tests=(.*)", conf).group(1).strip(),
    ),
    checks_run=ev,
    caught_by=[e["check"].split()[1] for e in ev if e["exit"] == 1],
)
json.dump(meta, open(os.path.join(d, "meta.json"), "w"), indent=1)
print(json.dumps(meta["confirmed_here"]), meta["caught_by"], [(e["check"], e["exit"]) for e in ev])
