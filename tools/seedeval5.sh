#!/bin/sh
# usage: SEEDROOT=/tmp/seed5 seedeval5.sh ID K PROP...  evaluates a delivery in a scratch worktree (never touches /repo);
# each check's output goes to /tmp/seedeval/ev_<TAG>ID-K/PROP.out with a trailing "EXIT=<code> SECS=<s>" line (read by seedstore.py)
ID=$1; K=$2; shift; shift
W=/tmp/seedeval/wt_${TAG}$ID-$K; E=/tmp/seedeval/ev_${TAG}$ID-$K; mkdir -p $E
git -C /repo worktree add --detach $W HEAD -q || exit 1
(cd $W && git apply ${SEEDROOT:-/tmp/seed}/$ID/out/patch$K.diff) || { echo "$ID-$K apply failed"; git -C /repo worktree remove --force $W; exit 1; }
for PR in "$@"; do
  t0=$(date +%s)
  ( cd /verif && VERIF_JOBS=${VERIF_JOBS:-6} VERIF_EVIDENCE_DIR=$E BOB_LEARN_EM_SRC=$W/src/bob/learn/em PYTHONPATH=$W/src timeout 1500 ./check $PR > $E/$PR.out 2>&1; rc=$?; echo "EXIT=$rc SECS=$(( $(date +%s) - t0 ))" >> $E/$PR.out; echo "$ID-$K $PR exit=$rc viol=$(grep -c '^VIOLATION' $E/$PR.out)" )
done
git -C /repo worktree remove --force $W
