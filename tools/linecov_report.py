#!/usr/bin/env python3
"""Audit helper: which executable source lines of bob.learn.em do the harnesses never reach?

    VERIF_LINECOV=/tmp/lc VERIF_EVIDENCE_DIR=/tmp/lc_ev ./check C01   (... for every property)
    .venv/bin/python tools/linecov_report.py /tmp/lc [/repo/src/bob/learn/em]

Prints, per file, the executable lines (taken from the compiled code objects) that no job reached
symbolically, and those no job reached at all.  Diagnostic only: a reached line says nothing about
what was asserted there; an unreached line is a blind spot worth a scenario."""
import glob
import json
import os
import sys


def executable_lines(path):
    src = open(path).read()
    code = compile(src, path, "exec")
    lines = set()
    doc_skip = set()

    def walk(co):
        for _, _, ln in co.co_lines():
            if ln is not None:
                lines.add(ln)
        for c in co.co_consts:
            if hasattr(c, "co_lines"):
                walk(c)

    walk(code)
    return src.splitlines(), lines - doc_skip


def main():
    d = sys.argv[1]
    srcdir = sys.argv[2] if len(sys.argv) > 2 else os.environ.get("BOB_LEARN_EM_SRC", "/repo/src/bob/learn/em")
    sym, anyhit = {}, {}
    for f in glob.glob(os.path.join(d, "*.json")):
        for fn, ln, kind in json.load(open(f)):
            anyhit.setdefault(fn, set()).add(ln)
            if kind == "sym":
                sym.setdefault(fn, set()).add(ln)
    for path in sorted(glob.glob(os.path.join(srcdir, "*.py"))):
        fn = os.path.basename(path)
        text, ex = executable_lines(path)
        # keep body lines only (def/class/decorator lines execute at import time)
        body = {ln for ln in ex if not text[ln - 1].lstrip().startswith(("def ", "class ", "@", "import ", "from ", '"""'))}
        never = sorted(body - anyhit.get(fn, set()))
        nosym = sorted(body & anyhit.get(fn, set()) - sym.get(fn, set()))
        print("== %s: %d body lines, %d reached symbolically, %d reached only on the real backend, %d never reached" % (fn, len(body), len(body & sym.get(fn, set())), len(nosym), len(never)))
        for ln in never:
            print("   never  %4d: %s" % (ln, text[ln - 1].rstrip()[:110]))
        for ln in nosym:
            print("   real   %4d: %s" % (ln, text[ln - 1].rstrip()[:110]))


if __name__ == "__main__":
    main()
