#!/usr/bin/env python3
"""Regenerates MANIFEST.json from the table below (kept in one place so the file is always valid)."""
import json, os
HERE = os.path.dirname(os.path.abspath(__file__))
TECH = "bounded symbolic execution of the real Python source on a z3-Real NumPy/Dask/h5py shim; each obligation (path & axioms & not claim) decided unsat by z3; sat models replayed on the real package"
CLAIMED = {}
NOTES = {}
for l in open(os.path.join(HERE, "properties.jsonl")):
    pass
def load_table():
    import importlib.util
    out = {}
    for fn in sorted(os.listdir(os.path.join(HERE, "props"))):
        if fn.startswith("c") and fn[1:3].isdigit() and fn.endswith(".py"):
            pid = fn[:-3].upper()
            src = open(os.path.join(HERE, "props", fn)).read()
            out[pid] = src
    return out
def module_info(pid):
    import importlib, sys
    sys.path.insert(0, HERE)
    try:
        m = importlib.import_module("props.%s" % pid.lower())
    except Exception:
        return None
    return m


def main():
    table = load_table()
    props = [json.loads(l) for l in open(os.path.join(HERE, "properties.jsonl"))]
    meta = json.load(open(os.path.join(HERE, "manifest_meta.json")))
    checks, na = [], []
    for p in props:
        pid = p["id"]
        mm = dict(meta.get(pid, {}))
        mod = module_info(pid) if pid in table else None
        if mod is not None:
            doc = (mod.__doc__ or "").strip()
            mm.setdefault("level_text", "Bounded symbolic model checking of the real source: %s  Every obligation (path & axiom instances & not claim) over the terms the real functions compute is decided unsat by z3 for all real-valued inputs of the listed sizes, all enumerated configurations and all explored paths; sat models are replayed on the real package before a VIOLATION is printed. Quick bounds: %s. Nothing is claimed outside the bounds." % (doc, json.dumps(mod.bounds("quick")) if hasattr(mod, "bounds") else "see evidence"))
            mm.setdefault("level_note", "ASSUMED: " + "; ".join(getattr(mod, "ASSUMPTIONS", [])) + " | STUBS (contracts): " + "; ".join(getattr(mod, "STUBS", [])) + " | OUTSIDE THE CLAIM: " + "; ".join(getattr(mod, "OUTSIDE", [])))
        if pid in table and not mm.get("not_applicable"):
            checks.append(dict(
                property_id=pid,
                quick_cmd="./check %s --tier quick" % pid,
                thorough_cmd="./check %s --tier thorough" % pid,
                evidence_file="evidence/%s.json" % pid,
                replay_cmd_template="./check %s --replay {path}" % pid,
                engine="symexec",
                level_claimed=dict(category="model_checking", text=mm.get("level_text", "Bounded symbolic check of the real code: for every listed size/configuration the property's obligations are decided by z3 for all real-valued inputs; nothing is claimed outside the bounds."), design_ref=mm.get("design_ref", "DESIGN.md section 3 (%s)" % pid)),
                level_note=mm.get("level_note", "real arithmetic (no rounding); environment stubs as listed in the evidence file; bounds in the evidence file"),
                technique=mm.get("technique", TECH),
            ))
        else:
            na.append(dict(property_id=pid, reason=mm.get("not_applicable", "check not built yet in this revision (work in progress)")))
    man = dict(
        version=1,
        setup_cmd="./setup.sh",
        hooks=dict(guard="BOB_LEARN_EM_VERIF", enable="none needed: the checks load /repo/src/bob/learn/em/*.py from the working tree into a private package with a symbolic numpy/dask/h5py; no repository line is instrumented", baseline_off_cmd="cd /repo && /venv/bin/python -m pytest -ra -q -p no:cacheprovider --timeout=900 --continue-on-collection-errors tests", source_commits=[], add_only=True),
        engines=[dict(name="symexec", path="symexec/", serves_properties=[c["property_id"] for c in checks], kind_free_text="symbolic execution of the real Python source over z3 reals (numpy object-array shim, Dask executor model, h5py model), DFS path exploration, axiom instantiation + incremental linearisation for ln/exp/sqrt, replay of counterexamples on the real package")],
        checks=checks,
        notes="See DESIGN.md. Exit codes of ./check: 0 held, 1 violation (replayed on the real code), 2 harness error, 3 inconclusive. known_findings.json lists recorded genuine defects and the fix: commits.",
        not_applicable=na,
    )
    json.dump(man, open(os.path.join(HERE, "MANIFEST.json"), "w"), indent=1)
    print("claimed:", [c["property_id"] for c in checks]); print("n/a:", [x["property_id"] for x in na])
main()
